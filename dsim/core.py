"""Common machinery: library loading, seed derivation, batches over a fork
pool, known findings, minimisation (ddmin), replay files, evidence files.

Exit codes of a check:  0 held (possibly with KNOWN-FINDING lines),
1 VIOLATION (with replay file), 2 harness error (no verdict).
"""
import concurrent.futures as cf
from concurrent.futures.process import BrokenProcessPool
import copy
import faulthandler
import hashlib
import json
import multiprocessing
import os
import random
import subprocess
import sys
import tempfile
import time
import traceback

VERIF = os.path.dirname(os.path.dirname(os.path.abspath(__file__)))
REPO = os.environ.get("VERIF_REPO", "/repo")
# evidence/ and replays/ live under /verif; development runs against scratch
# trees (tools/mutant.py) redirect them so committed evidence always comes
# from /repo itself
OUT = os.environ.get("VERIF_OUT", VERIF)
GUARD = "PYTHON_ECDSA_VERIF"

sys.dont_write_bytecode = True
_LIB = {}


def lib():
    """Import the library from the *current working tree* of REPO."""
    if not _LIB:
        os.environ[GUARD] = "1"
        src = os.path.join(REPO, "src")
        if sys.path[0] != src:
            sys.path.insert(0, src)
        for m in list(sys.modules):
            if m == "ecdsa" or m.startswith("ecdsa."):
                raise HarnessError("ecdsa imported before core.lib()")
        from . import sched
        sched.patch_threading(src)
        import ecdsa
        import ecdsa.ecdh
        import ecdsa._rwlock
        import ecdsa.rfc6979
        import ecdsa.numbertheory
        here = os.path.realpath(ecdsa.__file__)
        if not here.startswith(os.path.realpath(src) + os.sep):
            raise HarnessError("ecdsa imported from %s, wanted %s" % (here, src))
        _LIB["ecdsa"] = ecdsa
        # decided once, before any run registers anything (a verdict taken in
        # the middle of a run would make later runs depend on that run)
        from . import libx
        libx.toy_der_ok()
    return _LIB["ecdsa"]


class HarnessError(Exception):
    pass


# ------------------------------------------------------------------ seeds --

def derive(*parts):
    h = hashlib.sha256(":".join(str(p) for p in parts).encode()).digest()
    return int.from_bytes(h[:8], "big")


def rng(run_seed, stream):
    return random.Random(derive(run_seed, stream))


def digest_of(obj):
    return hashlib.sha256(
        json.dumps(obj, sort_keys=True, default=_jd).encode()).hexdigest()[:16]


def _jd(o):
    if isinstance(o, (bytes, bytearray, memoryview)):
        return "hex:" + bytes(o).hex()
    if isinstance(o, (set, frozenset)):
        return sorted(o)
    if isinstance(o, tuple):
        return list(o)
    return repr(o)


def jsonable(o):
    return json.loads(json.dumps(o, default=_jd))


def hx(b):
    return bytes(b).hex()


def unhx(s):
    return bytes.fromhex(s)


# --------------------------------------------------------- known findings --

_KF = {}


def known_findings():
    if "list" not in _KF:
        path = os.path.join(VERIF, "known_findings.json")
        try:
            with open(path) as f:
                _KF["list"] = json.load(f)["findings"]
        except FileNotFoundError:
            _KF["list"] = []
    return _KF["list"]


def match_known(prop, cls):
    """Return the id of the *open* known finding this violation class is an
    instance of, else None.  'fixed' entries never match."""
    for k in known_findings():
        if k.get("status") != "open" or k["property"] != prop:
            continue
        if cls in k.get("classes", ()):
            return k["id"]
        for pre in k.get("class_prefixes", ()):
            if cls.startswith(pre):
                return k["id"]
        for suf in k.get("class_suffixes", ()):
            if cls.endswith(suf):
                return k["id"]
    return None


# -------------------------------------------------------------- outcomes --

def new_outcome():
    return dict(violation=None, digest="", nontrivial=False, faults={},
                probes={}, steps=0, known={}, ops=0)


def bump(d, k, n=1):
    d[k] = d.get(k, 0) + n


def violation(prop, oracle, site, msg, detail=None):
    """A violation class is property + oracle + normalised site; the message
    is free text and is not part of the class."""
    return dict(cls="%s/%s/%s" % (prop, oracle, site), msg=str(msg)[:2000],
                detail=jsonable(detail) if detail is not None else None)


class Violation(Exception):
    def __init__(self, v):
        Exception.__init__(self, v["cls"])
        self.v = v


# ----------------------------------------------------------------- batches --

_process_history = []      # run indices this worker process has executed


def _mark_dir(parent_pid=None):
    base = "/dev/shm" if os.access("/dev/shm", os.W_OK) else \
        tempfile.gettempdir()
    return os.path.join(base, "verif_marks_%d" % (parent_pid or os.getppid()))


def _worker_chunk(args):
    modname, tier, seed, indices, hang_s = args
    faulthandler.dump_traceback_later(hang_s, exit=True)
    try:
        mod = load_prop(modname)
        hard = getattr(mod, "RUN_HARD_TIMEOUT", None)
        mark = None
        if hard:
            # a call stuck inside C code (no Python signal handler can run)
            # ends with this worker killed by the watchdog thread; the marker
            # tells the parent which run it was executing
            try:
                os.makedirs(_mark_dir(), exist_ok=True)
                mark = os.path.join(_mark_dir(), str(os.getpid()))
            except OSError:
                mark = None
        agg = dict(runs=0, nontrivial_digests=set(), all_digests=0, faults={},
                   probes={}, steps=0, ops=0, known={}, violations=[],
                   samples=[], states=set(), errors=[])
        for i in indices:
            rs = derive(seed, mod.ID, tier, i)
            _process_history.append(i)
            if hard:
                if mark:
                    try:
                        with open(mark, "w") as f_:
                            f_.write(str(i))
                    except OSError:
                        pass
                faulthandler.dump_traceback_later(hard, exit=True)
            try:
                prog = mod.generate(rs, tier)
                out = mod.execute(prog)
            except Violation as e:   # engines may raise instead of returning
                out = new_outcome()
                out["violation"] = e.v
            except Exception as ex:
                lv = library_exception(mod.ID, ex)
                if lv is None:
                    agg["errors"].append(dict(
                        index=i, run_seed=rs,
                        tb=traceback.format_exc()[-3000:]))
                    break
                out = new_outcome()
                out["violation"] = lv
            agg["runs"] += 1
            agg["steps"] += out.get("steps", 0)
            agg["sim_time"] = agg.get("sim_time", 0.0) + \
                out.get("sim_time", 0.0)
            agg["ops"] += out.get("ops", 0)
            for k, v in out.get("faults", {}).items():
                bump(agg["faults"], k, v)
            for k, v in out.get("probes", {}).items():
                bump(agg["probes"], k, v)
            for k, v in out.get("known", {}).items():
                bump(agg["known"], k, v)
            for s in out.get("states", ()):
                agg["states"].add(s)
            if out.get("nontrivial"):
                agg["nontrivial_digests"].add(out["digest"])
                if len(agg["samples"]) < 1:
                    agg["samples"].append(dict(index=i, run_seed=rs,
                                               program=prog))
            if out.get("violation"):
                agg["violations"].append(dict(
                    index=i, run_seed=rs, program=prog,
                    violation=out["violation"],
                    chunk_prefix=[j for j in indices if j <= i],
                    process_history=list(_process_history)))
                if len(agg["violations"]) >= 3:
                    break
        if mark:
            try:
                os.unlink(mark)
            except OSError:
                pass
        return agg
    finally:
        faulthandler.cancel_dump_traceback_later()


def _hard_hangs(mod, tier, seed):
    """After a worker died: the runs that dead workers were executing, each
    re-executed alone in a child process under a time limit.  Returns
    violation records for those that do not terminate there either."""
    import shutil
    out = []
    d = _mark_dir(os.getpid())
    hard = getattr(mod, "RUN_HARD_TIMEOUT", None)
    if not hard or not os.path.isdir(d):
        return out
    cand = []
    for name in sorted(os.listdir(d)):
        try:
            pid = int(name)
            with open(os.path.join(d, name)) as f:
                idx = int(f.read().strip())
        except (ValueError, OSError):
            continue
        # (no liveness test: the pool kills every worker once one has died,
        # and a dead child may still be a zombie; runs that were merely in
        # progress finish at once in the child below)
        cand.append(idx)
    shutil.rmtree(d, ignore_errors=True)
    for idx in sorted(set(cand))[:40]:
        rs = derive(seed, mod.ID, tier, idx)
        prog = mod.generate(rs, tier)
        v = dict(index=idx, run_seed=rs, program=prog, violation=violation(
            mod.ID, "terminates", "hard-hang",
            "run %d did not terminate within %d s and could not be "
            "interrupted by a Python-level signal handler (the call is stuck "
            "inside C code); re-executed alone in a child process it does "
            "not terminate either" % (idx, hard)))
        if _child_exec(mod.ID, prog, hard) == "hang":
            out.append(v)
    return out


def _child_exec(prop, prog, limit):
    """Execute a program in a child process.  'hang' if it does not finish
    within `limit` seconds, else 'done'."""
    code = ("import sys, json; sys.path.insert(0, %r); "
            "from dsim import core; core.lib(); "
            "mod = core.load_prop(%r); "
            "out = core.execute_any(mod, json.loads(sys.stdin.read())); "
            "v = out.get('violation'); "
            "print('CHILD-VIOLATION ' + v['cls'] if v else 'CHILD-CLEAN')"
            % (VERIF, prop))
    try:
        p = subprocess.run([sys.executable, "-B", "-c", code],
                           input=json.dumps(jsonable(prog)),
                           capture_output=True, text=True, timeout=limit,
                           env=dict(os.environ, PYTHONHASHSEED="0"))
    except subprocess.TimeoutExpired:
        return "hang"
    return p.stdout.strip().splitlines()[-1] if p.stdout.strip() else "done"


def load_prop(name):
    import importlib
    return importlib.import_module("dsim.props." + name.lower())


def run_batch(mod, tier, seed, runs, wall, workers=None, chunk=None,
              hang_s=600):
    """Execute run indices 0..runs-1 on a fork pool.  Returns aggregate dict.
    Stops scheduling new chunks after `wall` seconds (evaluations reports what
    actually ran); a dead/hung worker is a harness error."""
    lib()
    workers = workers or min(16, os.cpu_count() or 1)
    workers = int(os.environ.get("VERIF_WORKERS", workers))
    if chunk is None:
        chunk = max(1, min(200, runs // (workers * 8) or 1))
    chunks = [list(range(s, min(runs, s + chunk)))
              for s in range(0, runs, chunk)]
    t0 = time.time()
    total = dict(runs=0, nontrivial_digests=set(), faults={}, probes={},
                 steps=0, ops=0, known={}, violations=[], samples=[],
                 states=set(), errors=[], planned=runs, cut_short=False)
    name = mod.__name__.rsplit(".", 1)[1]
    ctx = multiprocessing.get_context("fork")
    ex = cf.ProcessPoolExecutor(max_workers=workers, mp_context=ctx)
    pending = set()
    it = iter(chunks)
    exhausted = False
    broken = False
    try:
        while True:
            while not exhausted and len(pending) < workers * 2:
                if time.time() - t0 > wall:
                    total["cut_short"] = True
                    exhausted = True
                    break
                try:
                    c = next(it)
                except StopIteration:
                    exhausted = True
                    break
                pending.add(ex.submit(_worker_chunk,
                                      (name, tier, seed, c, hang_s)))
            if not pending:
                break
            done, pending = cf.wait(pending, timeout=hang_s + 30,
                                    return_when=cf.FIRST_COMPLETED)
            if not done:
                raise HarnessError("workers hung for %ds" % (hang_s + 30))
            for f in done:
                if f.cancelled():
                    continue
                try:
                    agg = f.result()
                except BrokenProcessPool:
                    hh = _hard_hangs(mod, tier, seed)
                    if not hh:
                        raise       # a dead worker is a harness error
                    total["violations"].extend(hh)
                    exhausted = True
                    pending = set()
                    broken = True
                    break
                total["runs"] += agg["runs"]
                total["steps"] += agg["steps"]
                total["sim_time"] = total.get("sim_time", 0.0) + \
                    agg.get("sim_time", 0.0)
                total["ops"] += agg["ops"]
                total["nontrivial_digests"] |= agg["nontrivial_digests"]
                total["states"] |= agg["states"]
                for key in ("faults", "probes", "known"):
                    for k, v in agg[key].items():
                        bump(total[key], k, v)
                total["violations"].extend(agg["violations"])
                total["errors"].extend(agg["errors"])
                if len(total["samples"]) < 4:
                    total["samples"].extend(agg["samples"])
            if total["violations"] or total["errors"]:
                # stop early: drain what is running, schedule nothing new
                exhausted = True
                for f in list(pending):
                    f.cancel()
    finally:
        ex.shutdown(wait=not broken, cancel_futures=True)
        import shutil
        shutil.rmtree(_mark_dir(os.getpid()), ignore_errors=True)
    total["wall_s"] = time.time() - t0
    total["violations"].sort(key=lambda v: v["index"])
    return total


# -------------------------------------------------------------- minimiser --

def library_exception(prop, ex):
    """An exception that escaped from `execute` is a harness error - unless
    it was *raised inside the library* (innermost traceback frame under
    REPO/src) while the harness was making valid use of it (building a key
    from an in-range scalar, serialising, ...): that is the library failing,
    and is reported as a violation of the property being checked."""
    tb = ex.__traceback__
    last = None
    while tb is not None:
        last = tb
        tb = tb.tb_next
    if last is None:
        return None
    fn = os.path.realpath(last.tb_frame.f_code.co_filename)
    if not fn.startswith(os.path.realpath(os.path.join(REPO, "src")) + os.sep):
        return None
    return violation(prop, "library-exception", "%s-%s" % (
        type(ex).__name__, last.tb_frame.f_code.co_name),
        "valid use of the library raised %s(%s) in %s:%d" % (
            type(ex).__name__, str(ex)[:200], os.path.basename(fn),
            last.tb_lineno))


# ------------------------------------------- process-history differential --
# The normalised results of a run (out["rdigest"]) must not depend on what
# the same interpreter did before: hidden module-level state in the library (a
# cache keyed too coarsely, a memo, a counter) is a history too.  N runs are
# executed in a fresh interpreter in forward order and in another one in
# reversed order (different PYTHONHASHSEED); per-run result digests must agree.

def _history_worker(modname, seed, tier, n, order):
    lib()
    mod = load_prop(modname)
    idx = list(range(n))
    if order == "rev":
        idx.reverse()
    res = {}
    hard = getattr(mod, "RUN_HARD_TIMEOUT", None)
    for i in idx:
        prog = mod.generate(derive(seed, mod.ID + "-hist", tier, i), tier)
        if hard:
            # see _worker_chunk: a run stuck inside C code ends this process
            print("AT %d" % i, flush=True)
            faulthandler.dump_traceback_later(hard, exit=True)
        out = execute_any(mod, prog)
        v = out.get("violation")
        res[str(i)] = [out.get("rdigest"), v["cls"] if v else None]
    faulthandler.cancel_dump_traceback_later()
    print("RESULT " + json.dumps(res, sort_keys=True))


def _alone_worker(modname):
    lib()
    mod = load_prop(modname)
    prog = json.loads(sys.stdin.read())
    print("RD %s" % execute_any(mod, prog).get("rdigest"))


def history_differential(mod, tier, seed, n):
    t0 = time.time()
    name = mod.__name__.rsplit(".", 1)[1]
    outs = []
    for hs, order in (("11", "fwd"), ("424242", "rev")):
        env = dict(os.environ, PYTHONHASHSEED=hs)
        p = subprocess.run(
            [sys.executable, "-B", "-c",
             "import sys; sys.path.insert(0, %r); from dsim import core; "
             "core._history_worker(%r, %d, %r, %d, %r)"
             % (VERIF, name, seed, tier, n, order)],
            capture_output=True, text=True, env=env, timeout=3000)
        line = [l for l in p.stdout.splitlines() if l.startswith("RESULT ")]
        at = [l for l in p.stdout.splitlines() if l.startswith("AT ")]
        hard = getattr(mod, "RUN_HARD_TIMEOUT", None)
        if (p.returncode or not line) and hard and at:
            # the worker was killed by its watchdog inside run `i`
            i = int(at[-1][3:])
            seq = list(range(n))
            if order == "rev":
                seq.reverse()
            seq = seq[:seq.index(i) + 1]
            progs = [mod.generate(derive(seed, mod.ID + "-hist", tier, j),
                                  tier) for j in seq]
            prog = progs[-1]
            if _child_exec(mod.ID, prog, hard) != "hang":
                prog = dict(multi=progs)
                if _child_exec(mod.ID, prog, hard * 2) != "hang":
                    raise HarnessError(
                        "history worker died in run %d, which terminates "
                        "when re-executed: %s" % (i, p.stderr[-800:]))
            v = violation(
                mod.ID, "terminates", "hard-hang",
                "a run of the process-history phase did not terminate "
                "within %d s and could not be interrupted by a Python-level "
                "signal handler (stuck inside C code)" % hard)
            return dict(evaluations=len(seq), distinct_nontrivial=0,
                        samples=[], wall_s=time.time() - t0,
                        violations=[dict(index=-1 - i, run_seed=0,
                                         program=prog, violation=v)],
                        report=dict(process_history_runs=len(seq)))
        if p.returncode or not line:
            raise HarnessError("history worker failed: %s" % p.stderr[-800:])
        outs.append(json.loads(line[0][7:]))
    viols = []
    diff = sorted(int(i) for i in outs[0] if outs[0][i] != outs[1][i])
    if diff:
        i = diff[0]
        # in the reversed order run i was preceded by runs n-1 .. i+1
        hist_idx = list(range(n - 1, i, -1)) + [i]
        progs = [mod.generate(derive(seed, mod.ID + "-hist", tier, j), tier)
                 for j in hist_idx]
        v = violation(
            mod.ID, "process-history", "results-differ",
            "run %d gives result digest %r when the interpreter executed "
            "runs 0..%d before it, and %r when it executed runs %d..%d before "
            "it: some result depends on hidden process-global state in the "
            "library" % (i, outs[0][str(i)][0], i - 1, outs[1][str(i)][0],
                         n - 1, i + 1))
        viols.append(dict(index=-1 - i, run_seed=0,
                          program=dict(multi=progs, differential=True,
                                       alone=progs[-1]),
                          violation=v))
    return dict(evaluations=2 * n, distinct_nontrivial=n,
                samples=[dict(kind="process-history differential", runs=n,
                              orders=["forward", "reversed"],
                              differing_runs=diff[:5])],
                wall_s=time.time() - t0, violations=viols,
                report=dict(process_history_runs=n, differing=len(diff)))


def _execute_differential(mod, prog):
    """Replay of a process-history finding: run the whole sequence here and
    compare the last run's result digest with the digest of the same program
    executed on its own in a fresh interpreter."""
    name = mod.__name__.rsplit(".", 1)[1]
    out = new_outcome()
    last = None
    for p_ in prog["multi"]:
        last = execute_any(mod, p_)
        if last.get("violation"):
            return last
    p = subprocess.run(
        [sys.executable, "-B", "-c",
         "import sys; sys.path.insert(0, %r); from dsim import core; "
         "core._alone_worker(%r)" % (VERIF, name)],
        input=json.dumps(jsonable(prog["alone"])), capture_output=True,
        text=True, timeout=600, env=dict(os.environ, PYTHONHASHSEED="5"))
    line = [l for l in p.stdout.splitlines() if l.startswith("RD ")]
    if not line:
        raise HarnessError("differential judge failed: " + p.stderr[-500:])
    alone = line[0][3:]
    if last is not None and str(last.get("rdigest")) != alone:
        out["violation"] = violation(
            mod.ID, "process-history", "results-differ",
            "after %d earlier runs in this interpreter the last run's result "
            "digest is %s; executed alone in a fresh interpreter it is %s"
            % (len(prog["multi"]) - 1, last.get("rdigest"), alone))
    return out


def execute_any(mod, prog):
    """Execute a program, or - for {"multi": [...]} - a sequence of programs
    in this one process (a history across runs: hidden process-global state
    in the library may carry over).  Returns the first violating outcome."""
    if isinstance(prog, dict) and prog.get("differential"):
        return _execute_differential(mod, prog)
    if isinstance(prog, dict) and "multi" in prog:
        out = new_outcome()
        for p in prog["multi"]:
            out = execute_any(mod, p)
            if out.get("violation"):
                return out
        return out
    try:
        return mod.execute(prog)
    except Violation as e:
        out = new_outcome()
        out["violation"] = e.v
        return out
    except Exception as ex:
        lv = library_exception(mod.ID, ex)
        if lv is None:
            raise
        out = new_outcome()
        out["violation"] = lv
        return out


def _same_class(mod, prog, cls):
    try:
        out = execute_any(mod, prog)
    except Exception:
        return False
    v = out.get("violation")
    return bool(v) and v["cls"] == cls


def ddmin_list(lst, test, budget):
    """Classic ddmin on a list; `test(candidate_list)` -> True if still
    failing.  `budget` is a mutable [remaining_evaluations, deadline]."""
    n = 2
    while len(lst) >= 2:
        if budget[0] <= 0 or time.time() > budget[1]:
            break
        size = max(1, len(lst) // n)
        subsets = [lst[i:i + size] for i in range(0, len(lst), size)]
        reduced = False
        for i in range(len(subsets)):
            comp = [x for j, s in enumerate(subsets) if j != i for x in s]
            budget[0] -= 1
            if test(comp):
                lst = comp
                n = max(n - 1, 2)
                reduced = True
                break
            if budget[0] <= 0 or time.time() > budget[1]:
                break
        if not reduced:
            if n >= len(lst):
                break
            n = min(len(lst), n * 2)
    if len(lst) == 1 and budget[0] > 0:
        budget[0] -= 1
        if test([]):
            lst = []
    return lst


def _get_path(prog, path):
    o = prog
    for k in path:
        o = o[k]
    return o


def _set_path(prog, path, val):
    o = prog
    for k in path[:-1]:
        o = o[k]
    o[path[-1]] = val


def minimise(mod, prog, cls, max_evals=600, max_wall=90):
    """ddmin over each list the module names in SHRINK (paths into the
    program), then the module's own simplifier if it has one."""
    prog = copy.deepcopy(prog)
    budget = [max_evals, time.time() + max_wall]
    if isinstance(prog, dict) and "multi" in prog:
        # history across runs: drop whole runs first, keep the rest as is
        keep_last = bool(prog.get("differential"))
        runs = list(prog["multi"])
        last = runs[-1:] if keep_last else []
        if keep_last:
            budget[0] = min(budget[0], 60)

        def test_multi(cand):
            return _same_class(mod, dict(prog, multi=cand + last), cls)
        pre = ddmin_list(runs[:-1] if keep_last else runs, test_multi, budget)
        prog["multi"] = pre + last
        return prog, max_evals - budget[0]
    to_trace = getattr(mod, "to_trace", None)
    if to_trace is not None:
        # schedsim: replace "strategy + seed" by the explicit list of context
        # switches it produced, so that ddmin can drop switches one by one
        try:
            cand = to_trace(prog)
            budget[0] -= 2
            if cand is not None and _same_class(mod, cand, cls):
                prog = cand
        except Exception:
            pass
    paths = []
    for spec in getattr(mod, "SHRINK", [["ops"]]):
        if callable(spec):
            paths.extend(spec(prog))
        else:
            paths.append(list(spec))
    for _ in range(2):
        for path in paths:
            try:
                lst = _get_path(prog, path)
            except (KeyError, IndexError, TypeError):
                continue
            if not isinstance(lst, list) or not lst:
                continue

            def test(cand, path=path):
                p2 = copy.deepcopy(prog)
                _set_path(p2, path, cand)
                return _same_class(mod, p2, cls)
            new = ddmin_list(list(lst), test, budget)
            _set_path(prog, path, new)
    simp = getattr(mod, "simplify", None)
    if simp:
        for cand in simp(prog):
            if budget[0] <= 0 or time.time() > budget[1]:
                break
            budget[0] -= 1
            if _same_class(mod, cand, cls):
                prog = cand
    return prog, max_evals - budget[0]


def _minimise_history(mod, multi, cls, path, max_wall=150):
    """ddmin over whole runs of a cross-run history.  Each candidate is
    judged in a *fresh interpreter* (the state being hunted is process
    global, so the main process - which has run other things - is no judge)."""
    import tempfile
    deadline = time.time() + max_wall
    budget = [200, deadline]
    tmpdir = tempfile.mkdtemp(
        prefix="dsimhist", dir="/dev/shm" if os.access("/dev/shm", os.W_OK)
        else None)
    n = [0]

    def test(cand):
        if len(cand) < 1:
            return False
        n[0] += 1
        pth = os.path.join(tmpdir, "cand.json")
        doc = dict(property=mod.ID, program=dict(multi=cand),
                   violation=dict(cls=cls))
        with open(pth, "w") as f:
            json.dump(jsonable(doc), f)
        ok, _ = verify_replay_fresh(pth, cls)
        return ok
    try:
        runs = list(multi["multi"])
        # the last run is the one that violates: keep it, shrink the prefix
        last = runs[-1]
        pre = ddmin_list(runs[:-1], lambda c: test(c + [last]), budget)
        return dict(multi=pre + [last]), n[0]
    except Exception:
        traceback.print_exc()
        return None, n[0]
    finally:
        import shutil
        shutil.rmtree(tmpdir, ignore_errors=True)


# ---------------------------------------------------------------- replays --

def repo_head():
    try:
        return subprocess.run(["git", "-C", REPO, "rev-parse", "HEAD"],
                              capture_output=True, text=True,
                              timeout=20).stdout.strip()
    except Exception:
        return ""


def write_replay(mod, tier, seed, v, prog, minimised, evals):
    d = os.path.join(OUT, "replays")
    os.makedirs(d, exist_ok=True)
    path = os.path.join(d, "%s-%s-seed%d-run%d.json" % (
        mod.ID, tier, seed, v["index"]))
    doc = dict(property=mod.ID, tier=tier, seed=seed, run_index=v["index"],
               run_seed=v["run_seed"], violation=v["violation"],
               program=jsonable(prog), minimised=minimised,
               minimise_evaluations=evals,
               original_size=_size(v["program"]), size=_size(prog),
               repo_head=repo_head())
    with open(path, "w") as f:
        json.dump(doc, f, indent=1, sort_keys=True)
    return path


def _size(prog):
    try:
        return len(json.dumps(jsonable(prog)))
    except Exception:
        return -1


def replay_file(path):
    """Re-execute a replay file.  Exit 1 + VIOLATION line if it reproduces."""
    lib()
    with open(path) as f:
        doc = json.load(f)
    mod = load_prop(doc["property"])
    if doc["violation"]["cls"].endswith("/terminates/hard-hang"):
        # the recorded run gets stuck inside C code: execute it in a child
        # process under the same time limit
        limit = getattr(mod, "RUN_HARD_TIMEOUT", 60)
        res = _child_exec(doc["property"], doc["program"], limit)
        if res == "hang":
            print("replay: reproduced class=%s" % doc["violation"]["cls"])
            print("  the program did not terminate within %d s" % limit)
            print("VIOLATION property=%s replay=%s" % (doc["property"], path))
            return 1
        print("replay: child finished: %s (recorded class was %s)" % (
            res, doc["violation"]["cls"]))
        if res.startswith("CHILD-VIOLATION"):
            print("VIOLATION property=%s replay=%s" % (doc["property"], path))
            return 1
        return 0
    out = execute_any(mod, doc["program"])
    v = out.get("violation")
    if v:
        known = match_known(doc["property"], v["cls"])
        same = v["cls"] == doc["violation"]["cls"]
        print("replay: %s class=%s%s" % (
            "reproduced" if same else "different violation", v["cls"],
            " (open known finding %s)" % known if known else ""))
        print("  " + v["msg"].replace("\n", "\n  "))
        print("VIOLATION property=%s replay=%s" % (doc["property"], path))
        return 1
    print("replay: no violation (recorded class was %s)"
          % doc["violation"]["cls"])
    return 0


def verify_replay_fresh(path, cls):
    """Replay in a fresh interpreter with another hash seed."""
    env = dict(os.environ)
    env["PYTHONHASHSEED"] = "12345"
    p = subprocess.run([sys.executable, "-B", os.path.join(VERIF, "check"),
                        "replay", path], capture_output=True, text=True,
                       env=env, timeout=600)
    return p.returncode == 1 and ("class=%s" % cls) in p.stdout, p.stdout[-2000:]


def _accept_other_class(path, txt):
    import re
    m = re.search(r"^replay: different violation class=(\S+)(.*)$", txt or "",
                  re.M)
    if not m or "open known finding" in m.group(2):
        return False, path, txt
    actual = m.group(1)
    try:
        with open(path) as f:
            doc = json.load(f)
        doc["violation"]["first_seen_as"] = doc["violation"].get("cls")
        doc["violation"]["cls"] = actual
        with open(path, "w") as f:
            json.dump(doc, f)
        ok, txt2 = verify_replay_fresh(path, actual)
    except Exception:
        traceback.print_exc()
        return False, path, txt
    if ok:
        print("  (in a fresh interpreter the replay file shows the violation "
              "as class %s)" % actual)
    return ok, path, txt2 if not ok else txt


# --------------------------------------------------------------- evidence --

def write_evidence(mod, tier, seed, total, extra=None, violations=0):
    os.makedirs(os.path.join(OUT, "evidence"), exist_ok=True)
    wall = total.get("wall_s", 0.0) + (extra or {}).get("wall_s", 0.0)
    runs = total["runs"]
    cov = dict(
        evaluations=runs + (extra or {}).get("evaluations", 0),
        distinct_nontrivial=len(total["nontrivial_digests"])
        + (extra or {}).get("distinct_nontrivial", 0),
        rule=mod.RULE,
        samples=jsonable([_trim(s) for s in total["samples"][:3]]
                         + (extra or {}).get("samples", [])),
        exhaustive=bool((extra or {}).get("exhaustive", False)),
        planned_runs=total.get("planned", runs),
        cut_short_by_wall_budget=total.get("cut_short", False),
        runs_per_hour=int(runs / wall * 3600) if wall > 0 else 0,
        seeds="run i uses sha256('%d:%s:%s:i')[:8]; i in [0,%d)" % (
            seed, mod.ID, tier, runs),
        sim_steps=total["steps"],
        sim_clock_seconds=round(total.get("sim_time", 0.0), 1),
        operations=total["ops"],
        sim_time_note="the library reads no clock: simulated time = logical "
                      "steps (yield points / operations executed); "
                      "sim_clock_seconds is the simulated clock of the thread "
                      "scheduler (advanced only by stall faults and timed "
                      "waits; 0 for checks without one)",
        faults_fired=dict(sorted(total["faults"].items())),
        probes=dict(sorted(total["probes"].items())),
        distinct_abstract_states=len(total["states"]),
        components_real=mod.COMPONENTS_REAL,
        components_stub=mod.COMPONENTS_STUB,
        known_findings_seen=dict(sorted(total["known"].items())),
        probes_at_zero=[p for p in getattr(mod, "REQUIRED_PROBES", {}).get(
            tier, []) if not total["probes"].get(p)],
        repo_head=repo_head(),
    )
    if extra:
        cov["extra"] = jsonable(extra.get("report", {}))
    doc = dict(property_id=mod.ID, tier=tier, seed=seed, level=mod.LEVEL,
               coverage=cov, assumptions=mod.ASSUMPTIONS,
               wall_s=round(wall, 2), violations=violations)
    path = os.path.join(OUT, "evidence", mod.ID + ".json")
    with open(path, "w") as f:
        json.dump(doc, f, indent=1, sort_keys=True)
    return path


def _trim(s):
    txt = json.dumps(jsonable(s))
    if len(txt) > 6000:
        return dict(index=s.get("index"), run_seed=s.get("run_seed"),
                    program_truncated=txt[:6000])
    return s


# ------------------------------------------------------------------- main --

def run_check(mod, tier, seed):
    lib()
    b = mod.budget(tier)
    print("[%s] tier=%s seed=%d planned_runs=%d wall_budget=%ds repo=%s" % (
        mod.ID, tier, seed, b["runs"], b["wall"], REPO), flush=True)
    extra = None
    extra_viol = []
    if hasattr(mod, "extra"):
        extra = mod.extra(tier, seed)
        extra_viol = extra.get("violations", [])
    hd = getattr(mod, "HISTORY_DIFF", None)
    total = run_batch(mod, tier, seed,
                      b["runs"] if not extra_viol else min(b["runs"], 200),
                      b["wall"], chunk=b.get("chunk"),
                      hang_s=b.get("hang_s", 600))
    # the process-history differential costs two fresh interpreters per
    # program: it is run when the seeded batch itself found nothing (a
    # violation that makes calls hang would be met again, at the full time
    # limit, by every program of this phase)
    if hd and not extra_viol and not total["violations"] \
            and not total["errors"]:
        h = history_differential(mod, tier, seed, hd[tier])
        if extra is None:
            extra = h
        else:
            for k_ in ("evaluations", "distinct_nontrivial", "wall_s"):
                extra[k_] = extra.get(k_, 0) + h[k_]
            extra["samples"] = extra.get("samples", []) + h["samples"]
            extra["violations"] = extra.get("violations", []) + h["violations"]
            extra.setdefault("report", {}).update(h["report"])
            extra["exhaustive"] = extra.get("exhaustive", False)
        extra_viol = extra.get("violations", [])
    if total["errors"]:
        e = total["errors"][0]
        print("HARNESS-ERROR property=%s run=%d run_seed=%d\n%s" % (
            mod.ID, e["index"], e["run_seed"], e["tb"]))
        return 2
    probes_missing = [p for p in getattr(mod, "REQUIRED_PROBES", {}).get(tier, [])
                      if not total["probes"].get(p)]
    viols = list(extra_viol) + total["violations"]
    # every *open* known finding of this property is listed on every run
    # (with how often this run met it), fixed ones never are
    seen = dict(total["known"])
    if extra:
        for kid, n in extra.get("known", {}).items():
            seen[kid] = seen.get(kid, 0) + n
    for k in known_findings():
        if k.get("status") == "open" and k["property"] == mod.ID:
            print("KNOWN-FINDING: property=%s %s [%s, met in %d runs of this "
                  "batch]" % (mod.ID, k["what"], k["id"], seen.get(k["id"], 0)))
    rc = 0
    if viols:
        v = viols[0]
        cls = v["violation"]["cls"]
        print("[%s] violation class %s at run %d; minimising ..." % (
            mod.ID, cls, v["index"]), flush=True)
        try:
            if cls.endswith("/terminates/hard-hang"):
                raise HarnessError("not minimised: every evaluation would "
                                   "cost the full time limit")
            prog, evals = minimise(mod, v["program"], cls)
            minimised = True
        except HarnessError:
            prog, evals, minimised = v["program"], 0, False
        except Exception:
            traceback.print_exc()
            prog, evals, minimised = v["program"], 0, False
        path = write_replay(mod, tier, seed, v, prog, minimised, evals)
        ok, txt = verify_replay_fresh(path, cls)
        if not ok:
            # fall back to the unminimised program before giving up
            path = write_replay(mod, tier, seed, v, v["program"], False, evals)
            ok, txt = verify_replay_fresh(path, cls)
        for hist_key in ("chunk_prefix", "process_history"):
            if ok or not v.get(hist_key) or len(v[hist_key]) < 2:
                continue
            # the violation needs what earlier runs of the same worker left
            # behind in the library's process-global state: replay the
            # worker's history (first the runs of that chunk, then everything
            # that worker process executed) in a fresh interpreter
            multi = dict(multi=[mod.generate(derive(seed, mod.ID, tier, j),
                                             tier)
                                for j in v[hist_key]])
            path = write_replay(mod, tier, seed, v, multi, False, 0)
            ok, txt = verify_replay_fresh(path, cls)
            if ok:
                print("[%s] needs cross-run history (process-global state, "
                      "%d runs); minimising the run sequence ..." % (
                          mod.ID, len(multi["multi"])), flush=True)
                m2, ev2 = _minimise_history(mod, multi, cls, path)
                if m2 is not None:
                    p2 = write_replay(mod, tier, seed, v, m2, True, ev2)
                    ok2, txt2 = verify_replay_fresh(p2, cls)
                    if ok2:
                        path = p2
                    else:
                        path = write_replay(mod, tier, seed, v, multi, False,
                                            ev2)
        print("  " + v["violation"]["msg"].replace("\n", "\n  "))
        if not ok:
            # the fresh interpreter may meet another violation of the same
            # property first (a defect in process-global state shows up
            # differently in a process with a different history); that is
            # still a reproducible violation: record it under the class the
            # replay file actually produces
            ok, path, txt = _accept_other_class(path, txt)
        if not ok:
            print("HARNESS-ERROR property=%s: violation did not replay in a "
                  "fresh interpreter:\n%s" % (mod.ID, txt))
            write_evidence(mod, tier, seed, total, extra, violations=len(viols))
            return 2
        print("VIOLATION property=%s replay=%s" % (mod.ID, path))
        rc = 1
    write_evidence(mod, tier, seed, total, extra, violations=len(viols))
    print("[%s] runs=%d distinct_nontrivial=%d steps=%d wall=%.1fs "
          "faults=%s" % (mod.ID, total["runs"],
                         len(total["nontrivial_digests"]), total["steps"],
                         total["wall_s"], dict(sorted(total["faults"].items()))),
          flush=True)
    if rc == 0 and probes_missing:
        # a development-time signal (the workload or fault mix must change);
        # it is reported, and recorded in the evidence file, but it is not a
        # verdict about the code under test
        print("PROBE-AT-ZERO property=%s: %s" % (mod.ID, probes_missing))
    if rc == 0 and total["runs"] == 0:
        print("HARNESS-ERROR property=%s: nothing ran" % mod.ID)
        return 2
    return rc
