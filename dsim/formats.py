"""Key serialisation formats: the library side (persist / reload) and the
model side (what an independent implementation writes and expects)."""
import pickle

from .model import der as mder
from .model import ec

POINT_ENCS = ["uncompressed", "compressed", "hybrid"]


def vk_formats(mc, toy_registered=True):
    """Formats in which a verifying key can be persisted.  On 1-byte fields
    the compressed form collides in length with the raw form (toy artefact)."""
    encs = [e for e in POINT_ENCS if mc.plen > 1 or e != "compressed"]
    out = ["string:raw"] + ["string:" + e for e in encs]
    out += ["der:" + e for e in encs] + ["pem:" + e for e in encs]
    out += ["pickle"]
    return out


def sk_formats(mc):
    encs = [e for e in POINT_ENCS if mc.plen > 1 or e != "compressed"]
    out = ["string"]
    for c in ("der", "pem"):
        for f in ("ssleay", "pkcs8"):
            out += ["%s:%s:%s" % (c, f, e) for e in encs]
    out += ["pickle"]
    return out


def vk_dump(vk, fmt):
    p = fmt.split(":")
    if p[0] == "string":
        return bytes(vk.to_string(p[1]))
    if p[0] == "der":
        return bytes(vk.to_der(p[1]))
    if p[0] == "pem":
        return bytes(vk.to_pem(p[1]))
    if p[0] == "pickle":
        return pickle.dumps(vk)
    raise ValueError(fmt)


def vk_load(lk, data, fmt, curve, hashfunc):
    p = fmt.split(":")
    if hashfunc is None:
        # the plain call: the loader's own default hash function
        if p[0] == "string":
            return lk.VerifyingKey.from_string(data, curve)
        if p[0] == "der":
            return lk.VerifyingKey.from_der(data)
        if p[0] == "pem":
            return lk.VerifyingKey.from_pem(data)
    if p[0] == "string":
        return lk.VerifyingKey.from_string(data, curve, hashfunc)
    if p[0] == "der":
        return lk.VerifyingKey.from_der(data, hashfunc)
    if p[0] == "pem":
        return lk.VerifyingKey.from_pem(data, hashfunc)
    if p[0] == "pickle":
        return pickle.loads(data)
    raise ValueError(fmt)


def sk_dump(sk, fmt):
    p = fmt.split(":")
    if p[0] == "string":
        return bytes(sk.to_string())
    if p[0] == "der":
        return bytes(sk.to_der(p[2], p[1]))
    if p[0] == "pem":
        return bytes(sk.to_pem(p[2], p[1]))
    if p[0] == "pickle":
        return pickle.dumps(sk)
    raise ValueError(fmt)


def sk_load(lk, data, fmt, curve, hashfunc):
    p = fmt.split(":")
    if len(p) > 1 and p[1].startswith("pkcs8"):
        p[1] = "pkcs8"
    if hashfunc is None:
        if p[0] == "string":
            return lk.SigningKey.from_string(data, curve)
        if p[0] == "der":
            return lk.SigningKey.from_der(data)
        if p[0] == "pem":
            return lk.SigningKey.from_pem(data)
    if p[0] == "string":
        return lk.SigningKey.from_string(data, curve, hashfunc)
    if p[0] == "der":
        return lk.SigningKey.from_der(data, hashfunc)
    if p[0] == "pem":
        return lk.SigningKey.from_pem(data, hashfunc)
    if p[0] == "pickle":
        return pickle.loads(data)
    raise ValueError(fmt)


# ------------------------------------------------------------ model side ---

def model_vk_bytes(mc, Q, fmt):
    p = fmt.split(":")
    if p[0] == "string":
        return ec.encode_point(mc, Q, p[1])
    body = mder.spki(mc.oid, ec.encode_point(mc, Q, p[1]))
    if p[0] == "der":
        return body
    if p[0] == "pem":
        return mder.pem(body, "PUBLIC KEY")
    raise ValueError(fmt)


def model_sk_bytes(mc, d, Q, fmt):
    p = fmt.split(":")
    db = d.to_bytes(mc.nlen, "big")
    if p[0] == "string":
        return db
    pt = ec.encode_point(mc, Q, p[2])
    if p[1] == "ssleay":
        body = mder.ec_private_key(mc.oid, db, pt)
        label = "EC PRIVATE KEY"
    elif p[1] in ("pkcs8v0", "pkcs8attrs", "pkcs8pub", "pkcs8both"):
        # OneAsymmetricKey variants a peer may write (RFC 5958): the loader
        # documents that attributes and publicKey are ignored
        tail = b""
        if p[1] in ("pkcs8attrs", "pkcs8both"):
            # attributes [0] IMPLICIT SET OF Attribute (constructed)
            attr = mder.enc_seq(mder.enc_oid((1, 2, 840, 113549, 1, 9, 9, 20)),
                                mder.tlv(0x31, mder.tlv(0x0C, b"peer")))
            tail += mder.tlv(0xA0, attr)
        if p[1] in ("pkcs8pub", "pkcs8both"):
            # publicKey [1] IMPLICIT BIT STRING (primitive)
            tail += mder.tlv(0x81, b"\x00" + pt)
        ver = 0 if p[1] == "pkcs8v0" else 1
        body = mder.enc_seq(
            mder.enc_int(ver),
            mder.enc_seq(mder.enc_oid(mder.OID_EC_PUBLIC_KEY),
                         mder.enc_oid(mc.oid)),
            mder.enc_octets(mder.ec_private_key(mc.oid, db, pt)), tail) \
            if tail else mder.enc_seq(
                mder.enc_int(ver),
                mder.enc_seq(mder.enc_oid(mder.OID_EC_PUBLIC_KEY),
                             mder.enc_oid(mc.oid)),
                mder.enc_octets(mder.ec_private_key(mc.oid, db, pt)))
        label = "PRIVATE KEY"
    else:
        body = mder.pkcs8(mc.oid, db, pt)
        label = "PRIVATE KEY"
    if p[0] == "der":
        return body
    return mder.pem(body, label)


def model_parse_vk(mc_lookup, data, fmt, mc=None):
    """Independent peer parses what the library wrote.  Returns (mc, Q)."""
    p = fmt.split(":")
    if p[0] == "string":
        st, val = ec.decode_point(mc, data)
        if st != "ok":
            raise mder.DERError("point: " + val)
        return mc, val
    if p[0] == "pem":
        data = unpem_strict(data, "PUBLIC KEY")
    oid, pt = mder.parse_spki(data)
    c = mc_lookup(oid)
    if c is None:
        raise mder.DERError("unknown curve oid %r" % (oid,))
    st, val = ec.decode_point(c, pt, allow_raw=False)
    if st != "ok":
        raise mder.DERError("point: " + val)
    return c, val


def model_parse_sk(mc_lookup, data, fmt, mc=None):
    """Returns (mc, d, Q or None)."""
    p = fmt.split(":")
    if p[0] == "string":
        if len(data) != mc.nlen:
            raise mder.DERError("length")
        return mc, int.from_bytes(data, "big"), None
    if p[0] == "pem":
        data = unpem_strict(data, "EC PRIVATE KEY" if p[1] == "ssleay"
                            else "PRIVATE KEY")
    if p[1] == "ssleay":
        oid, db, pt = mder.parse_ec_private_key(data)
    else:
        oid, db, pt = mder.parse_pkcs8(data)
    c = mc_lookup(oid)
    if c is None:
        raise mder.DERError("unknown curve oid %r" % (oid,))
    if len(db) != c.nlen:
        raise mder.DERError("private key not fixed-length: %d bytes" % len(db))
    Q = None
    if pt is not None:
        st, Q = ec.decode_point(c, pt, allow_raw=False)
        if st != "ok":
            raise mder.DERError("public point: " + Q)
    return c, int.from_bytes(db, "big"), Q


def unpem_strict(data, label):
    import base64
    lines = bytes(data).split(b"\n")
    if lines[0] != b"-----BEGIN " + label.encode() + b"-----":
        raise mder.DERError("PEM header %r" % lines[0])
    if lines[-1] != b"" or lines[-2] != b"-----END " + label.encode() + b"-----":
        raise mder.DERError("PEM footer")
    body = lines[1:-2]
    for l in body[:-1]:
        if len(l) != 64:
            raise mder.DERError("PEM line length %d" % len(l))
    if body and not 1 <= len(body[-1]) <= 64:
        raise mder.DERError("PEM last line length")
    return base64.b64decode(b"".join(body), validate=True)
