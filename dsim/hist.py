"""Engine B - histsim: seeded operation histories over a pool of live library
objects (points and keys), checked after every step by three oracles:

  refine   the normalised result equals what the representation-free reference
           model returns for the model values;
  fresh    the same operation on freshly constructed library objects denoting
           the same values returns the same normalised result;
  invar    every pool object still denotes its model value; == is an
           equivalence agreeing with model equality; affine outputs canonical.

Faults: `interrupt` (the operation is aborted by SimInterrupt at its j-th
executed library line) and `restart` (every pool object is replaced by its
pickled-and-restored copy).
"""
import hashlib
import pickle

from . import core, libx, sched
from .model import curves as mcurves
from .model import ec

O = ec.O
POOL_CAP = 10
KEY_CAP = 4
SIG_CAP = 6


class _Env(object):
    pass


_inst = {}


def _install_lines():
    if not _inst:
        core.lib()
        from ecdsa import ellipticcurve, keys, ecdsa as lecdsa
        sched.install(line_modules=[ellipticcurve, keys, lecdsa])
        _inst["ok"] = True


class _Countdown(object):
    """LINE hook that raises SimInterrupt at the j-th library line."""

    def __init__(self, j):
        self.left = j
        self.fired = False
        self.where = None
        self.seen = 0

    def __call__(self, code, line):
        self.seen += 1
        if self.left is None:
            return
        self.left -= 1
        if self.left <= 0:
            self.left = None
            self.fired = True
            self.where = "%s:%d" % (code.co_name, line)
            raise sched.SimInterrupt()


# --------------------------------------------------------------- helpers ---

def norm_point(env, obj):
    """Normalise a library point to 'O' or [x, y] without mutating it."""
    le = env.le
    if obj is le.INFINITY:
        return "O"
    if isinstance(obj, le.Point):
        if obj.x() is None:
            return "O"
        return [int(obj.x()), int(obj.y())]
    if isinstance(obj, le.PointJacobi):
        if obj == le.INFINITY:
            return "O"
        return [int(obj.x()), int(obj.y())]
    return ["?", repr(type(obj))]


def mval(v):
    return "O" if v is O else [v[0], v[1]]


def make_point(env, val, z=1, order=None, gen=False, legacy=False, cf=None):
    """A library object denoting model value `val`."""
    le = env.le
    if val is O:
        return le.INFINITY
    x, y = val
    p = env.mc.p
    cf = cf if cf is not None else env.cf
    if legacy:
        return le.Point(cf, x, y, order)
    z %= p
    if z == 0:
        z = 1
    return le.PointJacobi(cf, x * z * z % p, y * z * z * z % p, z,
                          order, gen)


def decl_order(env, tag):
    mc = env.mc
    if tag is None or tag == "none":
        return None
    base = mc.n if mc.h == 1 else mc.n * mc.h
    return base * {"n": 1, "2n": 2, "3n": 3}[tag]


class Entry(object):
    __slots__ = ("obj", "val", "order", "gen", "legacy", "tag", "curve0",
                 "cof0")

    def __init__(self, obj, val, order=None, gen=False, legacy=False):
        self.obj = obj
        self.val = val
        self.order = order
        self.gen = gen
        self.legacy = legacy
        # the curve object a point reports is part of what it is
        try:
            self.curve0 = obj.curve() if val is not O else None
            self.cof0 = self.curve0.cofactor() if self.curve0 is not None \
                else None
        except Exception:
            self.curve0 = None
            self.cof0 = None

    def fresh(self, env):
        if self.val is O:
            return env.le.INFINITY
        return make_point(env, self.val, 1, self.order, self.gen, self.legacy,
                          cf=self.curve0)


def rep_class(env, e):
    """Abstract representation class of a pool entry (coverage measure)."""
    le = env.le
    o = e.obj
    if o is le.INFINITY or e.val is O:
        return "I"
    if isinstance(o, le.Point):
        return "L"
    d = getattr(o, "__dict__", {})
    z1 = "?"
    yneg = "?"
    tbl = "?"
    for k, v in d.items():
        if k.endswith("coords") and isinstance(v, tuple) and len(v) == 3:
            z1 = "1" if v[2] == 1 else "z"
            yneg = "r" if 0 <= v[1] < env.mc.p else "u"
        elif k.endswith("precompute"):
            tbl = "T" if v else "t"
    return "J%s%s%s%s%s" % (z1, yneg, tbl, "g" if e.gen else "-",
                            "o" if e.order else "-")


def relation(env, a, b):
    if a.val is O or b.val is O:
        return "id"
    if a.obj is b.obj:
        return "same"
    if a.val == b.val:
        return "eq"
    if a.val == ec.neg(env.mc, b.val):
        return "opp"
    return "un"


# ------------------------------------------------------------- generation --

POINT_OPS = ["new", "x", "y", "xy", "scale", "to_affine", "from_affine",
             "double", "add", "radd", "neg", "mul", "rmul", "mul_add", "eq",
             "ne", "order", "pickle", "eq3", "iadd", "imul", "hash",
             "mul_burst"]
KEY_OPS = ["sk_new", "sign_det", "sign_k", "verify", "precompute",
           "vk_to_string", "sk_to_string", "sk_to_der", "vk_to_der",
           "pickle_key", "reload_key", "key_eq", "key_point", "verify_bad"]

MIXES = {
    "C06": dict(new=8, x=3, y=3, xy=3, scale=4, to_affine=4, from_affine=3,
                double=10, add=22, radd=4, neg=10, mul=4, rmul=1, mul_add=2,
                eq=8, ne=3, order=1, pickle=2, eq3=3, iadd=3, hash=1),
    "C07": dict(new=8, x=1, y=1, xy=2, scale=3, to_affine=2, from_affine=4,
                double=2, add=4, radd=1, neg=4, mul=26, rmul=8, mul_add=22,
                eq=2, ne=1, order=1, pickle=2, eq3=0, imul=3, mul_burst=2),
    "C19": dict(new=6, x=3, y=3, xy=3, scale=6, to_affine=5, from_affine=4,
                double=4, add=8, radd=2, neg=4, mul=8, rmul=2, mul_add=6,
                eq=5, ne=2, order=1, pickle=7, eq3=4, iadd=3, imul=2, hash=2,
                mul_burst=1,
                sk_new=4, sign_det=7, sign_k=4, verify=8, precompute=5,
                vk_to_string=3, sk_to_string=2, sk_to_der=2, vk_to_der=2,
                pickle_key=4, reload_key=3, key_eq=3, key_point=5,
                verify_bad=2),
}


def gen_program(prop, run_seed, tier, curve_names, named_names, nops_range,
                named_frac=0.05, fault_rate=None):
    r = core.rng(run_seed, "config")
    if named_names and r.random() < named_frac:
        cname = r.choice(named_names)
        toy = False
    else:
        cname = r.choice(curve_names)
        toy = True
    mc = mcurves.by_name(cname)
    n = mc.n
    N = mc.n * mc.h
    mix = MIXES[prop]
    names = sorted(mix)
    weights = [mix[k] for k in names]
    lo, hi = nops_range
    if not toy:
        hi = max(lo + 1, hi // 4)
    nops = r.randrange(lo, hi)
    ro = core.rng(run_seed, "ops")
    faults_on = r.random() < 0.45
    kinds = []
    if faults_on:
        kinds = [k for k in ("interrupt", "restart") if r.random() < 0.7] \
            or ["interrupt"]
    frate = fault_rate if fault_rate is not None else r.choice([0.03, 0.08, 0.15])
    check_mode = r.choice(["every", "every", "sparse", "end"])
    ops = []
    # a few starting points so early ops have operands
    for _ in range(r.randrange(1, 4)):
        ops.append(_gen_op(ro, "new", mc, toy))
    for _ in range(nops):
        name = ro.choices(names, weights)[0]
        op = _gen_op(ro, name, mc, toy)
        if faults_on and ro.random() < frate:
            k = ro.choice(kinds)
            if k == "interrupt":
                op["fault"] = dict(kind="interrupt",
                                   at=int(ro.paretovariate(0.6)))
            else:
                op["fault"] = dict(kind="restart")
        if check_mode == "sparse":
            op["check"] = ro.random() < 0.2
        ops.append(op)
    return dict(prop=prop, curve=cname, ops=ops, check=check_mode,
                faults=kinds)


def _encs(mc, raw=False):
    """Point encodings usable on this curve: on 1-byte fields the compressed
    form (1+1 bytes) has the same length as the raw form (2 bytes) - an
    artefact of toy sizes, not of the library."""
    e = ["uncompressed", "hybrid"] + (["compressed"] if mc.plen > 1 else [])
    return e + (["raw"] if raw else [])


def _gen_op(r, name, mc, toy):
    n = mc.n
    N = mc.n * mc.h
    op = dict(op=name)
    idx = lambda: r.randrange(0, 1 << 16)  # noqa: E731
    if name == "new":
        # value = k*G most of the time; on cofactor curves any curve point
        op["k"] = r.randrange(0, N + 1) if mc.h == 1 else r.randrange(0, 4 * N)
        op["anypoint"] = mc.h != 1 and r.random() < 0.6
        op["z"] = r.choice([1, 1, 2, 3, mc.p - 1, r.randrange(1, mc.p)])
        op["order"] = r.choice(["none", "none", "n", "n", "2n", "3n"])
        op["gen"] = r.random() < 0.25 and op["order"] != "none"
        op["legacy"] = r.random() < 0.12
        op["rel"] = r.choice(["free", "free", "same", "neg", "dbl"])
        op["sib"] = r.random() < 0.1
        op["i"] = idx()
        # the identity handed in as a Jacobian triple (t^2, t^3, 0)
        op["inf"] = r.random() < 0.04
        op["inft"] = r.choice([0, 1, 1, 2, r.randrange(1, mc.p)])
    elif name in ("x", "y", "xy", "scale", "to_affine", "double", "neg",
                  "order", "pickle"):
        op["i"] = idx()
        if name == "pickle":
            op["replace"] = r.random() < 0.5
    elif name == "from_affine":
        op["i"] = idx()
        op["gen"] = r.random() < 0.5
    elif name == "hash":
        op["i"] = idx()
        op["key"] = r.random() < 0.3
    elif name == "mul_burst":
        # the same object multiplied many times over (a threshold on a use
        # counter is a history too), then by a long multiplier
        op["i"] = idx()
        op["n"] = r.choice([17, 33, 34, 40, 65, 70, 130]) if toy \
            else r.choice([17, 33, 34])
        op["ks"] = [r.randrange(1, 2 * N) for _ in range(5)]
        op["k"] = libx.structured_scalar(r, N)
        if r.random() < 0.6:
            op["k"] = ((1 << (r.randrange(2, 7) * N.bit_length()))
                       + r.getrandbits(N.bit_length())) * r.choice([1, 1, -1])
        op["how"] = r.choice(["mul", "mul", "mul_add", "rmul"])
    elif name in ("add", "radd", "eq", "ne", "iadd"):
        op["i"] = idx()
        op["j"] = idx()
        op["pair"] = r.choice(["any", "any", "same", "eqv", "opp"])
    elif name == "eq3":
        op["i"], op["j"], op["l"] = idx(), idx(), idx()
    elif name in ("mul", "rmul", "imul"):
        op["i"] = idx()
        op["k"] = libx.structured_scalar(r, N)
    elif name == "mul_add":
        op["i"] = idx()
        op["j"] = idx()
        op["pair"] = r.choice(["any", "any", "any", "same", "eqv", "opp",
                               "inf"])
        op["a"] = libx.structured_scalar(r, N)
        op["b"] = libx.structured_scalar(r, N)
        if r.random() < 0.1:
            op["a"] = 0
        if r.random() < 0.1:
            op["b"] = 0
    elif name == "sk_new":
        op["d"] = libx.key_scalar(r, n)
        op["hash"] = libx.pick_hash_name(r, toy)
        # sometimes the key with the opposite public point (same x) of an
        # existing key: d' = n - d
        op["rel"] = r.choice(["free", "free", "free", "neg"])
        op["i"] = idx()
    elif name in ("sign_det", "sign_k"):
        op["i"] = idx()
        op["msg"] = core.hx(r.randbytes(r.choice([0, 1, 3, 8, 20])))
        op["enc"] = r.choice(["string", "strings", "der"])
        op["extra"] = core.hx(r.randbytes(r.choice([0, 0, 0, 4])))
        op["default_hash"] = r.random() < 0.4
        if name == "sign_k":
            op["k"] = libx.key_scalar(r, n)
    elif name in ("verify", "verify_bad"):
        op["i"] = idx()
        op["s"] = idx()
        op["tweak"] = r.randrange(1, 1 << 16)
        op["default_hash"] = r.random() < 0.4
    elif name == "precompute":
        op["i"] = idx()
        op["lazy"] = r.random() < 0.5
    elif name in ("vk_to_string", "vk_to_der"):
        op["i"] = idx()
        op["enc"] = r.choice(_encs(mc, raw=(name == "vk_to_string")))
    elif name in ("sk_to_string", "pickle_key", "key_point"):
        op["i"] = idx()
        op["which"] = r.choice(["sk", "vk"])
    elif name == "sk_to_der":
        op["i"] = idx()
        op["fmt"] = r.choice(["ssleay", "pkcs8"])
        op["enc"] = r.choice(_encs(mc))
    elif name == "reload_key":
        op["i"] = idx()
        op["fmt"] = r.choice(["string", "der", "pem", "pkcs8", "vk_string",
                              "vk_der", "vk_pem"])
        op["enc"] = r.choice(_encs(mc))
    elif name == "key_eq":
        op["i"] = idx()
        op["j"] = idx()
    return op


# -------------------------------------------------------------- execution --

class KeyEntry(object):
    __slots__ = ("sk", "vk", "d", "hash", "Q")

    def __init__(self, sk, d, hashname, Q):
        self.sk = sk
        self.vk = sk.verifying_key
        self.d = d
        self.hash = hashname
        self.Q = Q


def execute(prog, known_cb=None):
    _install_lines()
    core.lib()
    from ecdsa import ellipticcurve as le, keys as lk, util as lu, curves as lc
    from ecdsa import ecdsa as lecdsa
    prop = prog["prop"]
    env = _Env()
    env.le = le
    env.lk = lk
    env.lu = lu
    env.prop = prop
    mc = env.mc = mcurves.by_name(prog["curve"])
    env.toy = mc.p < (1 << 24)
    env.curve = libx.fresh_lib_curve(mc)
    env.cf = env.curve.curve
    # an equal (same p, a, b) but distinct curve object with another cofactor
    env.cf_sib = le.CurveFp(int(env.cf.p()), int(env.cf.a()), int(env.cf.b()),
                            mc.h + 1)
    env.even = (mc.n * mc.h) % 2 == 0
    registered = False
    if env.toy:
        # let DER/PEM loaders find the toy curve by its (private) OID
        lc.curves.append(env.curve)
        registered = True
    out = core.new_outcome()
    st = _State(env, out, prog)
    try:
        st.run()
    except core.Violation as v:
        out["violation"] = v.v
    finally:
        sched._line_hook = None
        if registered:
            try:
                lc.curves.remove(env.curve)
            except ValueError:
                pass
    out["digest"] = hashlib.sha256(repr(st.log).encode()).hexdigest()[:16]
    out["rdigest"] = hashlib.sha256(repr(st.results).encode()).hexdigest()[:16]
    out["nontrivial"] = st.state_changing >= 2 or bool(out["faults"])
    out["ops"] = st.nops
    out["steps"] = st.lines
    out["states"] = st.states
    return out


class _Known(Exception):
    pass


class _State(object):
    def __init__(self, env, out, prog):
        self.env = env
        self.out = out
        self.prog = prog
        self.prop = prog["prop"]
        self.pool = []
        self.keys = []
        self.sigs = []
        self.log = []
        self.results = []       # normalised results (process-history check)
        self.states = set()
        self.nops = 0
        self.lines = 0
        self.state_changing = 0
        self.cur = None
        # the generator of the fresh curve is a pool member from the start
        mc = env.mc
        self.pool.append(Entry(env.curve.generator, mc.G, mc.n, True, False))

    # ---- violations
    def fail(self, oracle, site, msg, detail=None, even_scope=None):
        """Raise a violation, unless it is an instance of an open known
        finding (then count it and abandon the run: the pool can no longer
        be trusted)."""
        v = core.violation(self.prop, oracle, site, msg, detail)
        if even_scope:
            v["cls"] += "/y0"
        kid = core.match_known(self.prop, v["cls"])
        if kid:
            core.bump(self.out["known"], kid)
            raise _Known()
        v["detail"] = dict(step=self.nops, op=self.cur, info=v.get("detail"))
        raise core.Violation(v)

    # ---- pool helpers
    def pick(self, i):
        return self.pool[i % len(self.pool)]

    def put(self, obj, val, order=None, gen=False, legacy=False):
        le = self.env.le
        e = Entry(obj, val, order, gen, legacy)
        if len(self.pool) >= POOL_CAP:
            # never evict the curve generator (slot 0)
            self.pool[1 + (self.nops % (POOL_CAP - 1))] = e
        else:
            self.pool.append(e)
        return e

    def y0_scope(self, kind, *entries_or_vals):
        """Known-finding scope F3: on even-order curves a true point with
        y == 0 is indistinguishable from the identity."""
        env = self.env
        if not env.even:
            return False
        vals = []
        for e in entries_or_vals:
            vals.append(e.val if isinstance(e, Entry) else e)
        if kind == "add":
            return any(v is not O and v[1] == 0 for v in vals)
        # multiplication: any operand of even order can pass through the
        # 2-torsion point inside the ladder
        for v in vals:
            if v is O:
                continue
            if v[1] == 0:
                return True
            if ec.point_order(env.mc, v) % 2 == 0:
                return True
        return False

    # ---- run
    def run(self):
        prog = self.prog
        ops = prog["ops"]
        mode = prog.get("check", "every")
        try:
            for op in ops:
                self.cur = op
                self.nops += 1
                f = op.get("fault")
                if f and f["kind"] == "restart":
                    self.restart()
                self.step(op)
                if mode == "every" or (mode == "sparse" and op.get("check")):
                    self.invariants(light=True)
            self.cur = dict(op="final-invariants")
            self.invariants(light=False)
        except _Known:
            pass

    def call(self, fn, op):
        """Run one library operation, possibly interrupted."""
        f = op.get("fault")
        cd = _Countdown(f["at"] if f and f["kind"] == "interrupt" else None)
        sched._line_hook = cd
        try:
            return True, fn()
        except sched.SimInterrupt:
            core.bump(self.out["faults"], "interrupt")
            if cd.where and ("precompute" in cd.where):
                core.bump(self.out["probes"], "interrupt_in_table_build")
            if cd.where and cd.where.startswith(("scale", "mul_add")):
                core.bump(self.out["probes"], "interrupt_in_scale_or_muladd")
            self.log.append(("interrupted", cd.where))
            return False, None
        finally:
            sched._line_hook = None
            self.lines += cd.seen

    def lib_op(self, oracle_site, fn, op, allowed=(), y0=False):
        """call() + classification of unexpected exceptions."""
        try:
            return self.call(fn, op)
        except allowed:
            raise
        except (core.Violation, _Known):
            raise
        except Exception as e:
            self.fail("exception", "%s-%s" % (oracle_site, type(e).__name__),
                      "%s raised %r" % (oracle_site, e), even_scope=y0)

    def restart(self):
        """Fault: only pickled state survives."""
        core.bump(self.out["faults"], "restart")
        for e in self.pool:
            try:
                e.obj = pickle.loads(pickle.dumps(e.obj))
                if e.curve0 is not None:
                    e.curve0 = e.obj.curve()    # a copy, by construction
            except Exception as ex:
                self.fail("pickle", "restart-" + type(ex).__name__,
                          "pickling a pool point failed: %r" % (ex,))
        for k in self.keys:
            try:
                k.sk = pickle.loads(pickle.dumps(k.sk))
                k.vk = k.sk.verifying_key
            except Exception as ex:
                self.fail("pickle", "restart-key-" + type(ex).__name__,
                          "pickling a key failed: %r" % (ex,))
        self.log.append("restart")

    # ---- result checking
    def check_point_result(self, name, res, want, fresh_fn, y0):
        env = self.env
        le = env.le
        p = env.mc.p
        # canonical affine outputs
        got = None
        try:
            got = norm_point(env, res)
        except Exception as e:
            self.fail("refine", name + "-normalise-" + type(e).__name__,
                      "result of %s cannot be read: %r" % (name, e),
                      even_scope=y0)
        if got != "O" and not (isinstance(got[0], int) and 0 <= got[0] < p
                               and 0 <= got[1] < p):
            self.fail("canonical", name,
                      "%s returned a point whose affine coordinates are not "
                      "canonical residues in [0, p-1]: %r (p=%d)"
                      % (name, got, p), dict(got=got, want=mval(want)),
                      even_scope=y0)
        self.results.append((name, got))
        if got != mval(want):
            self.fail("refine", name,
                      "%s: library %r, reference model %r" % (
                          name, got, mval(want)),
                      dict(got=got, want=mval(want)), even_scope=y0)
        if fresh_fn is not None:
            try:
                fr = norm_point(env, fresh_fn())
            except Exception as e:
                fr = ["exc", type(e).__name__]
            if fr != got:
                self.fail("fresh", name,
                          "%s on live objects gave %r but %r on freshly built "
                          "objects denoting the same values" % (name, got, fr),
                          dict(live=got, fresh=fr), even_scope=y0)

    def record_state(self, name, *ents):
        env = self.env
        parts = [name] + [rep_class(env, e) for e in ents]
        if len(ents) == 2:
            parts.append(relation(env, ents[0], ents[1]))
        self.states.add("|".join(parts))

    def pair(self, op):
        a = self.pick(op["i"])
        b = self.pick(op["j"])
        mode = op.get("pair", "any")
        env = self.env
        if mode == "same":
            b = a
        elif mode in ("eqv", "opp") and a.val is not O:
            want = a.val if mode == "eqv" else ec.neg(env.mc, a.val)
            for e in self.pool:
                if e is not a and e.val == want:
                    b = e
                    break
            else:
                z = 1 + (op["j"] % (env.mc.p - 1))
                obj = make_point(env, want, z, a.order, False, False)
                b = self.put(obj, want, a.order)
        elif mode == "inf":
            for e in self.pool:
                if e.val is O:
                    b = e
                    break
            else:
                b = self.put(env.le.INFINITY, O)
        return a, b

    # ---- one step
    def step(self, op):
        name = op["op"]
        h = getattr(self, "op_" + name)
        self.log.append(name)
        h(op)

    # -- point ops
    def op_new(self, op):
        env = self.env
        mc = env.mc
        rel = op.get("rel", "free")
        if rel != "free" and self.pool:
            base = self.pick(op["i"]).val
            val = {"same": base, "neg": ec.neg(mc, base),
                   "dbl": ec.add(mc, base, base)}[rel]
        elif op.get("anypoint"):
            pts = _all_points(mc)
            val = pts[op["k"] % len(pts)]
        else:
            val = ec.mul(mc, op["k"], mc.G)
        if op.get("inf"):
            val = O
        if val is O:
            t = op.get("inft", 0) % mc.p
            if t and not op["legacy"]:
                order = decl_order(env, op["order"])
                try:
                    obj = env.le.PointJacobi(env.cf, t * t % mc.p,
                                             t * t * t % mc.p, 0, order)
                except Exception:
                    # a library may refuse this representation outright
                    obj = None
                    core.bump(self.out["probes"], "identity_z0_refused")
                if obj is not None:
                    core.bump(self.out["probes"], "identity_z0")
                    self.put(obj, O)
                    return
            self.put(env.le.INFINITY, O)
            return
        order = decl_order(env, op["order"])
        legacy = op["legacy"]
        if legacy and mc.h != 1 and order:
            order = None
        gen = bool(op["gen"]) and not legacy and bool(order)
        if op.get("sib") and legacy:
            order = None    # the legacy constructor would multiply by it
        try:
            obj = make_point(env, val, op["z"], order, gen, legacy,
                             cf=env.cf_sib if op.get("sib") else None)
        except Exception as e:
            self.fail("exception", "construct-" + type(e).__name__,
                      "constructing a valid point raised %r" % (e,))
        self.put(obj, val, order, gen, legacy)
        self.state_changing += 1

    def _coord(self, op, which):
        env = self.env
        e = self.pick(op["i"])
        self.record_state(which, e)
        if e.val is O:
            return
        p = env.mc.p

        def fn():
            if which == "x":
                return [e.obj.x()]
            if which == "y":
                return [e.obj.y()]
            return [e.obj.x(), e.obj.y()]
        y0 = self.y0_scope("add", e)
        ok, got = self.lib_op(which, fn, op, y0=y0)
        if not ok:
            return
        want = {"x": [e.val[0]], "y": [e.val[1]], "xy": list(e.val)}[which]
        got = [int(g) if g is not None else None for g in got]
        if any(g is None or not 0 <= g < p for g in got):
            self.fail("canonical", which,
                      "%s() returned %r, not canonical residues in [0, p-1] "
                      "(p=%d)" % (which, got, p), dict(got=got, want=want),
                      even_scope=y0)
        if got != want:
            self.fail("refine", which, "%s(): library %r, model %r" % (
                which, got, want), dict(got=got, want=want), even_scope=y0)

    def op_x(self, op):
        self._coord(op, "x")

    def op_y(self, op):
        self._coord(op, "y")

    def op_xy(self, op):
        self._coord(op, "xy")

    def op_scale(self, op):
        env = self.env
        e = self.pick(op["i"])
        if e.val is O or e.legacy or not hasattr(e.obj, "scale"):
            return
        self.record_state("scale", e)
        y0 = self.y0_scope("add", e)
        ok, res = self.lib_op("scale", lambda: e.obj.scale(), op, y0=y0)
        if not ok:
            return
        self.state_changing += 1
        if res is not e.obj:
            self.fail("refine", "scale-identity",
                      "scale() did not return the point itself",
                      even_scope=y0)
        self.check_point_result("scale", res, e.val,
                                lambda: e.fresh(env).scale(), y0)

    def op_to_affine(self, op):
        env = self.env
        e = self.pick(op["i"])
        if e.val is O or e.legacy or not hasattr(e.obj, "to_affine"):
            return
        self.record_state("to_affine", e)
        y0 = self.y0_scope("add", e)
        ok, res = self.lib_op("to_affine", lambda: e.obj.to_affine(), op,
                              y0=y0)
        if not ok:
            return
        self.state_changing += 1
        if e.val is not O and not isinstance(res, env.le.Point):
            self.fail("refine", "to_affine-type",
                      "to_affine() returned %r" % (type(res),), even_scope=y0)
        self.check_point_result("to_affine", res, e.val,
                                lambda: e.fresh(env).to_affine(), y0)
        if e.val is not O:
            self.put_result(res, e.val, y0)

    def op_from_affine(self, op):
        env = self.env
        e = self.pick(op["i"])
        if e.val is O:
            return
        gen = bool(op["gen"]) and bool(e.order)
        self.record_state("from_affine", e)
        y0 = self.y0_scope("add", e)
        ok, res = self.lib_op(
            "from_affine",
            lambda: env.le.PointJacobi.from_affine(e.obj, gen), op, y0=y0)
        if not ok:
            return
        self.check_point_result("from_affine", res, e.val, None, y0)
        self.put(res, e.val, e.order, gen, False)

    def op_double(self, op):
        env = self.env
        e = self.pick(op["i"])
        if e.val is O and not hasattr(e.obj, "double"):
            return
        self.record_state("double", e)
        want = ec.add(env.mc, e.val, e.val)
        y0 = self.y0_scope("add", e, want)
        ok, res = self.lib_op("double", lambda: e.obj.double(), op, y0=y0)
        if not ok:
            return
        self.check_point_result("double", res, want,
                                lambda: e.fresh(env).double(), y0)
        self.put_result(res, want, y0)

    def op_add(self, op, swap=False):
        env = self.env
        a, b = self.pair(op)
        if swap:
            a, b = b, a
        self.record_state("add", a, b)
        want = ec.add(env.mc, a.val, b.val)
        y0 = self.y0_scope("add", a, b, want)
        ok, res = self.lib_op("add", lambda: a.obj + b.obj, op, y0=y0)
        if not ok:
            return
        self.check_point_result(
            "add", res, want, lambda: a.fresh(env) + b.fresh(env), y0)
        self.put_result(res, want, y0)

    def _flags_of(self, res):
        le = self.env.le
        if res is le.INFINITY:
            return None, False
        try:
            order = res.order()
        except Exception:
            order = None
        if order is not None:
            order = int(order)
        return order, isinstance(res, le.Point)

    def put_result(self, res, want, y0=False):
        """Add an operation's result to the pool with the flags the object
        itself carries.  Results obtained inside the scope of the open y = 0
        finding are not kept: the object may denote the 2-torsion point where
        the model says identity (or vice versa) even when the normalised
        outcome happened to agree.  A result that inherited a declared order which does
        not annihilate it (possible only on cofactor curves, when a subgroup
        point was added to a point outside the subgroup) is outside the
        precondition of scalar multiplication and is not kept."""
        if y0:
            return None
        order, legacy = self._flags_of(res)
        if order and want is not O and \
                ec.mul(self.env.mc, order, want) is not O:
            core.bump(self.out["probes"], "dropped_order_not_annihilating")
            return None
        return self.put(res, want, order, False, legacy)

    def op_radd(self, op):
        self.op_add(op, swap=True)

    def _still(self, name, e, y0):
        """The operand of an augmented assignment is a value: the name that
        still refers to it must denote what it denoted."""
        if y0:
            return
        try:
            now = norm_point(self.env, e.obj)
        except Exception as ex:
            now = ["exc", type(ex).__name__]
        if now != mval(e.val):
            self.fail("fresh", name + "-operand-changed",
                      "after `q = P; q %s ...` the object P denotes %r, it "
                      "denoted %r: an augmented assignment changed a point "
                      "other names refer to" % (
                          "+=" if name == "iadd" else "*=", now, mval(e.val)),
                      dict(now=now, before=mval(e.val)))

    def op_iadd(self, op):
        env = self.env
        a, b = self.pair(op)
        self.record_state("iadd", a, b)
        want = ec.add(env.mc, a.val, b.val)
        y0 = self.y0_scope("add", a, b, want)

        def fn():
            q = a.obj
            q += b.obj
            return q

        def ff():
            q = a.fresh(env)
            q += b.fresh(env)
            return q
        ok, res = self.lib_op("iadd", fn, op, y0=y0)
        if not ok:
            return
        self.check_point_result("iadd", res, want, ff, y0)
        self._still("iadd", a, y0)
        if b is not a:
            self._still("iadd", b, y0)
        if res is not a.obj and res is not b.obj:
            self.put_result(res, want, y0)

    def op_imul(self, op):
        env = self.env
        e = self.pick(op["i"])
        k = op["k"]
        self.record_state("imul", e)
        want = ec.mul(env.mc, k, e.val)
        y0 = self.y0_scope("mul", e, want)

        def fn():
            q = e.obj
            q *= k
            return q

        def ff():
            q = e.fresh(env)
            q *= k
            return q
        ok, res = self.lib_op("imul", fn, op, y0=y0)
        if not ok:
            return
        self.state_changing += 1
        self.check_point_result("imul", res, want, ff, y0)
        self._still("imul", e, y0)
        if res is not e.obj:
            self.put_result(res, want, y0)

    def op_hash(self, op):
        """hash() is a public operation like any other: whatever it answers
        for a live object (an integer, or TypeError for an unhashable class)
        it answers for a fresh object denoting the same value - equal objects
        hash equal, before and after rescaling."""
        env = self.env
        if op.get("key") and self.keys:
            k = self.kpick(op["i"])
            live = [k.sk.verifying_key]
            fresh = [self.fresh_key(k).verifying_key]
            name = "hash-key"
        else:
            e = self.pick(op["i"])
            if self.y0_scope("add", e):
                return
            live, fresh, name = [e.obj], [e.fresh(env)], "hash-point"

        def h(o):
            try:
                return hash(o)
            except TypeError:
                return "unhashable"
        ok, got = self.lib_op(name, lambda: h(live[0]), op)
        if not ok:
            return
        fr = h(fresh[0])
        self.results.append((name, got == "unhashable"))
        if got != fr and "unhashable" not in (got, fr):
            # (a live PointJacobi denoting infinity and the INFINITY
            # singleton, or a Jacobi and a legacy point, are objects of
            # different classes: one of them being unhashable is no
            # contradiction)
            self.fail("fresh", name, "hash() of a live object is %r, of a "
                      "freshly built object denoting the same value %r "
                      "(equal objects must hash equal)" % (got, fr))

    def op_mul_burst(self, op):
        env = self.env
        e = self.pick(op["i"])
        if self.y0_scope("mul", e, e.val):
            return
        self.record_state("mul_burst", e)
        g = self.pool[0]
        how = op["how"]
        if how == "mul_add" and (
                g.val is O or g.legacy or not hasattr(g.obj, "mul_add")
                or self.y0_scope("mul", g, e)
                or (g.order and e.val is not O
                    and ec.mul(env.mc, g.order, e.val) is not O)):
            how = "mul"     # outside mul_add's precondition
        for t in range(op["n"]):
            kk = op["ks"][t % len(op["ks"])] + t
            try:
                if how == "mul_add":
                    r_ = g.obj.mul_add(1, e.obj, kk)
                    w_ = ec.add(env.mc, g.val, ec.mul(env.mc, kk, e.val))
                else:
                    r_ = e.obj * kk
                    w_ = ec.mul(env.mc, kk, e.val)
                bad = norm_point(env, r_) != mval(w_)
            except Exception as ex:
                self.fail("exception", "mul_burst-" + type(ex).__name__,
                          "multiplication %d of a burst raised %r" % (t, ex))
            if bad and not self.y0_scope("mul", e, w_):
                self.fail("refine", "mul_burst", "multiplication %d of a "
                          "burst on one object: library %r, model %r" % (
                              t, norm_point(env, r_), mval(w_)))
        self.state_changing += 1
        self.op_mul(dict(op, op="mul"), right=(op["how"] == "rmul"))

    def op_neg(self, op):
        env = self.env
        e = self.pick(op["i"])
        self.record_state("neg", e)
        want = ec.neg(env.mc, e.val)
        y0 = self.y0_scope("add", e)
        ok, res = self.lib_op("neg", lambda: -e.obj, op, y0=y0)
        if not ok:
            return
        self.check_point_result("neg", res, want, lambda: -e.fresh(env), y0)
        self.put_result(res, want, y0)

    def op_mul(self, op, right=False):
        env = self.env
        e = self.pick(op["i"])
        k = op["k"]
        self.record_state("mul", e)
        want = ec.mul(env.mc, k, e.val)
        y0 = self.y0_scope("mul", e, want)
        if right:
            fn = lambda: k * e.obj                       # noqa: E731
            ff = lambda: k * e.fresh(env)                # noqa: E731
        else:
            fn = lambda: e.obj * k                       # noqa: E731
            ff = lambda: e.fresh(env) * k                # noqa: E731
        ok, res = self.lib_op("mul", fn, op, y0=y0)
        if not ok:
            return
        self.state_changing += 1
        self.check_point_result("mul", res, want, ff, y0)
        self.put_result(res, want, y0)

    def op_rmul(self, op):
        self.op_mul(op, right=True)

    def op_mul_add(self, op):
        env = self.env
        a, b = self.pair(op)
        if a.val is O or a.legacy or not hasattr(a.obj, "mul_add"):
            return
        if a.order:
            # a declared order must annihilate every point taking part
            if b.val is not O and ec.mul(env.mc, a.order, b.val) is not O:
                return
        self.record_state("mul_add", a, b)
        ka, kb = op["a"], op["b"]
        want = ec.add(env.mc, ec.mul(env.mc, ka, a.val),
                      ec.mul(env.mc, kb, b.val))
        y0 = self.y0_scope("mul", a, b, want)
        ok, res = self.lib_op(
            "mul_add", lambda: a.obj.mul_add(ka, b.obj, kb), op, y0=y0)
        if not ok:
            return
        self.state_changing += 1
        self.check_point_result(
            "mul_add", res, want,
            lambda: a.fresh(env).mul_add(ka, b.fresh(env), kb), y0)
        self.put_result(res, want, y0)

    def op_eq(self, op, ne=False):
        env = self.env
        a, b = self.pair(op)
        self.record_state("eq", a, b)
        want = (a.val == b.val)
        y0 = self.y0_scope("add", a, b)
        if ne:
            ok, got = self.lib_op("ne", lambda: a.obj != b.obj, op, y0=y0)
            want = not want
        else:
            ok, got = self.lib_op("eq", lambda: a.obj == b.obj, op, y0=y0)
        if not ok:
            return
        if got is not True and got is not False:
            self.fail("refine", "eq-type", "== returned %r" % (got,),
                      even_scope=y0)
        if got != want:
            self.fail("refine", "ne" if ne else "eq",
                      "%r %s %r: library %r, model %r" % (
                          mval(a.val), "!=" if ne else "==", mval(b.val), got,
                          want),
                      dict(a=mval(a.val), b=mval(b.val), got=got),
                      even_scope=y0)
        # symmetric
        ok, got2 = self.lib_op("eq", (lambda: b.obj != a.obj) if ne else
                               (lambda: b.obj == a.obj), dict(), y0=y0)
        if got2 != got:
            self.fail("equivalence", "symmetry",
                      "a==b is %r but b==a is %r" % (got, got2),
                      even_scope=y0)

    def op_ne(self, op):
        self.op_eq(op, ne=True)

    def op_eq3(self, op):
        env = self.env
        a, b, c = self.pick(op["i"]), self.pick(op["j"]), self.pick(op["l"])
        y0 = self.y0_scope("add", a, b, c)
        try:
            ab, bc, ac = a.obj == b.obj, b.obj == c.obj, a.obj == c.obj
            aa = a.obj == a.obj
        except Exception as e:
            self.fail("exception", "eq-" + type(e).__name__,
                      "== raised %r" % (e,), even_scope=y0)
        if aa is not True and a.val is not O:
            self.fail("equivalence", "reflexive", "P == P is %r" % (aa,),
                      even_scope=y0)
        if ab and bc and not ac:
            self.fail("equivalence", "transitive",
                      "a==b and b==c but not a==c", even_scope=y0)

    def op_order(self, op):
        e = self.pick(op["i"])
        if e.val is O:
            return
        try:
            got = e.obj.order()
        except Exception as ex:
            self.fail("exception", "order-" + type(ex).__name__,
                      "order() raised %r" % (ex,))
        if (got or None) != (e.order or None) and not e.legacy:
            self.fail("fresh", "order", "order() is %r, declared %r" % (
                got, e.order))

    def op_pickle(self, op):
        env = self.env
        e = self.pick(op["i"])
        self.record_state("pickle", e)
        y0 = self.y0_scope("add", e)
        ok, res = self.lib_op(
            "pickle", lambda: pickle.loads(pickle.dumps(e.obj)), op, y0=y0)
        if not ok:
            return
        self.state_changing += 1
        self.check_point_result("pickle", res, e.val, None, y0)
        try:
            same = (res == e.obj) and (e.obj == res)
        except Exception as ex:
            self.fail("exception", "pickle-eq-" + type(ex).__name__,
                      "comparing a restored point raised %r" % (ex,))
        if not same:
            self.fail("pickle", "equal",
                      "a pickled-and-restored point does not compare equal "
                      "to the original", even_scope=y0)
        if op.get("replace"):
            e.obj = res
            if e.curve0 is not None:
                e.curve0 = res.curve()
        else:
            self.put(res, e.val, e.order, e.gen, e.legacy)

    # -- invariants
    def invariants(self, light):
        env = self.env
        p = env.mc.p
        for idx, e in enumerate(self.pool):
            if light and (idx + self.nops) % 3:
                continue
            y0 = self.y0_scope("add", e)
            try:
                got = norm_point(env, e.obj)
                fr = e.fresh(env)
                eqf = (e.obj == fr) if e.val is not O else \
                    (e.obj == env.le.INFINITY)
            except Exception as ex:
                self.fail("invar", "read-" + type(ex).__name__,
                          "pool object %d cannot be read: %r" % (idx, ex),
                          even_scope=y0)
            if e.curve0 is not None:
                try:
                    cnow = e.obj.curve()
                    cofnow = cnow.cofactor()
                except Exception as ex:
                    self.fail("invar", "curve-" + type(ex).__name__,
                              "pool object %d: curve() raised %r" % (idx, ex),
                              even_scope=y0)
                if cnow is not e.curve0 or cofnow != e.cof0:
                    self.fail("invar", "curve-object",
                              "pool object %d now reports another curve "
                              "object (cofactor %r, was %r)" % (
                                  idx, cofnow, e.cof0), even_scope=y0)
            if got != mval(e.val):
                self.fail("invar", "value",
                          "pool object %d now denotes %r, its value is %r"
                          % (idx, got, mval(e.val)),
                          dict(index=idx, got=got, want=mval(e.val)),
                          even_scope=y0)
            if got != "O" and not (0 <= got[0] < p and 0 <= got[1] < p):
                self.fail("canonical", "pool",
                          "pool object %d has non-canonical affine "
                          "coordinates %r" % (idx, got), even_scope=y0)
            if eqf is not True:
                self.fail("invar", "eq-fresh",
                          "pool object %d (value %r) does not compare equal "
                          "to a fresh object of the same value"
                          % (idx, mval(e.val)), even_scope=y0)
        if not light:
            for k in self.keys:
                self.key_invariant(k)

    # ------------------------------------------------------------- keys ----
    def hashfn(self, name):
        return libx.hash_by_name(name)

    def kpick(self, i):
        if not self.keys:
            return None
        return self.keys[i % len(self.keys)]

    def fresh_key(self, k):
        env = self.env
        fc = libx.fresh_lib_curve(env.mc)
        return env.lk.SigningKey.from_secret_exponent(
            k.d, fc, self.hashfn(k.hash))

    def op_sk_new(self, op):
        env = self.env
        d = op["d"]
        if op.get("rel") == "neg" and self.keys:
            d = env.mc.n - self.kpick(op["i"]).d
        hf = self.hashfn(op["hash"])
        ok, sk = self.lib_op(
            "sk_new", lambda: env.lk.SigningKey.from_secret_exponent(
                d, env.curve, hf), op)
        if not ok:
            return
        Q = ec.mul(env.mc, d, env.mc.G)
        k = KeyEntry(sk, d, op["hash"], Q)
        if op.get("i", 0) % 6 == 0:
            # the verifying side received the key as a plain affine point
            # object (no declared order)
            k.vk = env.lk.VerifyingKey.from_public_point(
                env.le.Point(env.cf, Q[0], Q[1]), env.curve, hf)
        if len(self.keys) >= KEY_CAP:
            self.keys[self.nops % KEY_CAP] = k
        else:
            self.keys.append(k)
        self.state_changing += 1
        self.key_invariant(k)

    def key_invariant(self, k):
        env = self.env
        try:
            pt = k.vk.pubkey.point
            got = [int(pt.x()), int(pt.y())]
            raw = bytes(k.vk.to_string())
            sraw = bytes(k.sk.to_string())
        except Exception as ex:
            self.fail("invar", "key-read-" + type(ex).__name__,
                      "key cannot be read: %r" % (ex,))
        try:
            hf = self.hashfn(k.hash)
            dh = (k.vk.default_hashfunc, k.sk.default_hashfunc)
            pp = k.sk.privkey.public_key.point
            ppt = [int(pp.x()), int(pp.y())]
            dsec = int(k.sk.privkey.secret_multiplier)
            curves_ = (k.sk.curve, k.vk.curve)
        except Exception as ex:
            self.fail("invar", "key-attrs-" + type(ex).__name__,
                      "key attributes cannot be read: %r" % (ex,))
        if dh[0] is not hf or dh[1] is not hf:
            self.fail("invar", "key-default-hash",
                      "the key's default hash function changed: now %r / %r, "
                      "was %r" % (dh[0], dh[1], hf))
        if ppt != list(k.Q) or dsec != k.d:
            self.fail("invar", "key-private-part",
                      "privkey of key d=%d now holds d=%d, public point %r "
                      "(want %r)" % (k.d, dsec, ppt, list(k.Q)))
        if curves_[0].name != env.mc.name or curves_[1].name != env.mc.name \
                or int(curves_[0].order) != env.mc.n:
            self.fail("invar", "key-curve", "the key's curve attribute "
                      "changed: %r / %r" % (curves_[0], curves_[1]))
        if got != list(k.Q):
            self.fail("invar", "key-point",
                      "public point of key d=%d is %r, want %r" % (
                          k.d, got, list(k.Q)))
        want = ec.encode_point(env.mc, k.Q, "raw")
        if raw != want:
            self.fail("invar", "key-to_string", "verifying key to_string() "
                      "is %s, want %s" % (raw.hex(), want.hex()))
        if sraw != k.d.to_bytes(env.mc.nlen, "big"):
            self.fail("invar", "sk-to_string", "signing key to_string() is "
                      "%s for d=%d" % (sraw.hex(), k.d))

    def _enc(self, name):
        lu = self.env.lu
        return {"string": (lu.sigencode_string, lu.sigdecode_string),
                "strings": (lu.sigencode_strings, lu.sigdecode_strings),
                "der": (lu.sigencode_der, lu.sigdecode_der)}[name]

    def _sig_norm(self, sig):
        if isinstance(sig, tuple):
            return [bytes(s).hex() for s in sig]
        return bytes(sig).hex()

    def op_sign_det(self, op):
        env = self.env
        k = self.kpick(op["i"])
        if k is None:
            return
        msg = core.unhx(op["msg"])
        extra = core.unhx(op["extra"])
        se, sd = self._enc(op["enc"])
        hf = self.hashfn(k.hash)
        if op.get("default_hash"):
            # rely on the key's own default hash function
            ok, sig = self.lib_op(
                "sign_det", lambda: k.sk.sign_deterministic(
                    msg, sigencode=se, extra_entropy=extra), op)
        else:
            ok, sig = self.lib_op(
                "sign_det", lambda: k.sk.sign_deterministic(
                    msg, hashfunc=hf, sigencode=se, extra_entropy=extra), op)
        if not ok:
            return
        self.state_changing += 1
        fk = self.fresh_key(k)
        fs = fk.sign_deterministic(msg, hashfunc=hf, sigencode=se,
                                   extra_entropy=extra)
        if self._sig_norm(sig) != self._sig_norm(fs):
            self.fail("fresh", "sign_det",
                      "deterministic signature of the live key differs from "
                      "the one a freshly built equal key makes",
                      dict(live=self._sig_norm(sig), fresh=self._sig_norm(fs)))
        # same signature every time
        ok2, sig2 = self.lib_op(
            "sign_det", lambda: k.sk.sign_deterministic(
                msg, hashfunc=hf, sigencode=se, extra_entropy=extra), dict())
        if self._sig_norm(sig2) != self._sig_norm(sig):
            self.fail("fresh", "sign_det-repeat",
                      "two deterministic signatures of the same data differ")
        self.results.append(("sign_det", self._sig_norm(sig)))
        if extra:
            # the caller re-uses one buffer for the extra entropy and
            # refreshes it in place between two calls
            buf = bytearray(extra)
            refreshed = bytearray(extra)
            refreshed[0] ^= 0x5A
            # what a fresh equal key gives for the refreshed bytes - asked
            # for *before* the live key sees the buffer, so that a memo
            # anywhere cannot serve the expectation and the answer alike
            f_b = fk.sign_deterministic(msg, hashfunc=hf, sigencode=se,
                                        extra_entropy=bytes(refreshed))
            s_a = k.sk.sign_deterministic(msg, hashfunc=hf, sigencode=se,
                                          extra_entropy=buf)
            buf[0] ^= 0x5A
            s_b = k.sk.sign_deterministic(msg, hashfunc=hf, sigencode=se,
                                          extra_entropy=buf)
            if self._sig_norm(s_a) != self._sig_norm(sig) or \
                    self._sig_norm(s_b) != self._sig_norm(f_b):
                self.fail("fresh", "sign_det-extra-buffer",
                          "deterministic signature with extra entropy passed "
                          "as a bytearray that was refreshed in place differs "
                          "from what a fresh equal key returns for the same "
                          "bytes")
        self._store_sig(k, msg, sig, op["enc"])

    def _digest_int(self, k, msg):
        d = self.hashfn(k.hash)(msg).digest()
        return ec.digest_to_int(d, self.env.mc.n)

    def _store_sig(self, k, msg, sig, enc):
        ent = dict(d=k.d, Q=k.Q, hash=k.hash, msg=msg, sig=sig, enc=enc)
        if len(self.sigs) >= SIG_CAP:
            self.sigs[self.nops % SIG_CAP] = ent
        else:
            self.sigs.append(ent)

    def op_sign_k(self, op):
        env = self.env
        k = self.kpick(op["i"])
        if k is None:
            return
        msg = core.unhx(op["msg"])
        se, sd = self._enc(op["enc"])
        hf = self.hashfn(k.hash)
        nonce = op["k"]
        e = self._digest_int(k, msg)
        want = ec.ecdsa_sign(env.mc, k.d, e, nonce)
        from ecdsa.ecdsa import RSZeroError
        try:
            ok, sig = self.lib_op(
                "sign_k", lambda: k.sk.sign(msg, hashfunc=hf, sigencode=se,
                                            k=nonce), op,
                allowed=(RSZeroError,))
        except RSZeroError:
            if want is not None:
                self.fail("refine", "sign_k-rszero",
                          "sign(k=%d) raised RSZeroError but the model "
                          "signature is %r" % (nonce, want))
            core.bump(self.out["probes"], "rs_zero")
            return
        if not ok:
            return
        self.state_changing += 1
        if want is None:
            self.fail("refine", "sign_k-rszero-missing",
                      "sign(k=%d) returned a signature although r or s is 0"
                      % nonce)
        try:
            r_, s_ = sd(sig, env.mc.n)
        except Exception as ex:
            self.fail("refine", "sign_k-decode-" + type(ex).__name__,
                      "own signature does not decode: %r" % (ex,))
        if (int(r_), int(s_)) != want:
            self.fail("refine", "sign_k",
                      "sign(k=%d): library (r,s)=%r, model %r" % (
                          nonce, (int(r_), int(s_)), want))
        self._store_sig(k, msg, sig, op["enc"])

    def op_verify(self, op, bad=False):
        env = self.env
        k = self.kpick(op["i"])
        if k is None or not self.sigs:
            return
        s = self.sigs[op["s"] % len(self.sigs)]
        se, sd = self._enc(s["enc"])
        hf = self.hashfn(s["hash"])
        msg = s["msg"]
        if bad:
            msg = msg + bytes([op["tweak"] & 0xFF])
        dig = hf(msg).digest()
        e = ec.digest_to_int(dig, env.mc.n)
        r_, s_ = sd(s["sig"], env.mc.n)
        want = ec.ecdsa_verify(env.mc, k.Q, e, int(r_), int(s_))
        BadSig = env.lk.BadSignatureError

        use_default = op.get("default_hash") and k.hash == s["hash"]

        def fn():
            try:
                if use_default:
                    return k.vk.verify(s["sig"], msg, sigdecode=sd)
                return k.vk.verify(s["sig"], msg, hashfunc=hf, sigdecode=sd)
            except BadSig:
                return "bad"
        ok, got = self.lib_op("verify", fn, op)
        if not ok:
            return
        self.state_changing += 1
        if got is not True and got != "bad":
            self.fail("refine", "verify-falsy",
                      "verify returned %r" % (got,))
        self.results.append(("verify", repr(got)))
        if (got is True) != want:
            self.fail("refine", "verify",
                      "verify: library %r, model %r (key d=%d, sig by d=%d)"
                      % (got, want, k.d, s["d"]),
                      dict(got=repr(got), want=want))
        fk = self.fresh_key(k).verifying_key
        try:
            fg = fk.verify(s["sig"], msg, hashfunc=hf, sigdecode=sd)
        except BadSig:
            fg = "bad"
        if fg != got:
            self.fail("fresh", "verify",
                      "verify on the live key gave %r, on a fresh equal key "
                      "%r" % (got, fg))

    def op_verify_bad(self, op):
        self.op_verify(op, bad=True)

    def op_precompute(self, op):
        k = self.kpick(op["i"])
        if k is None:
            return
        ok, _ = self.lib_op(
            "precompute", lambda: k.vk.precompute(lazy=op["lazy"]), op)
        self.state_changing += 1
        core.bump(self.out["probes"], "precompute")
        self.key_invariant(k)

    def op_vk_to_string(self, op):
        env = self.env
        k = self.kpick(op["i"])
        if k is None:
            return
        ok, got = self.lib_op(
            "vk_to_string", lambda: bytes(k.vk.to_string(op["enc"])), op)
        if not ok:
            return
        want = ec.encode_point(env.mc, k.Q, op["enc"])
        self.results.append(("vk_to_string", got.hex()))
        if got != want:
            self.fail("fresh", "vk_to_string",
                      "to_string(%s) is %s, want %s" % (
                          op["enc"], got.hex(), want.hex()))

    def op_sk_to_string(self, op):
        k = self.kpick(op["i"])
        if k is None:
            return
        self.key_invariant(k)

    def op_vk_to_der(self, op):
        k = self.kpick(op["i"])
        if k is None:
            return
        ok, got = self.lib_op(
            "vk_to_der", lambda: bytes(k.vk.to_der(op["enc"])), op)
        if not ok:
            return
        fr = bytes(self.fresh_key(k).verifying_key.to_der(op["enc"]))
        if got != fr:
            self.fail("fresh", "vk_to_der", "to_der differs between the live "
                      "key and a fresh equal key")

    def op_sk_to_der(self, op):
        k = self.kpick(op["i"])
        if k is None:
            return
        ok, got = self.lib_op(
            "sk_to_der", lambda: bytes(k.sk.to_der(op["enc"], op["fmt"])), op)
        if not ok:
            return
        fr = bytes(self.fresh_key(k).to_der(op["enc"], op["fmt"]))
        self.results.append(("sk_to_der", got.hex()))
        if got != fr:
            self.fail("fresh", "sk_to_der", "to_der differs between the live "
                      "key and a fresh equal key")

    def op_pickle_key(self, op):
        k = self.kpick(op["i"])
        if k is None:
            return
        ok, sk2 = self.lib_op(
            "pickle_key", lambda: pickle.loads(pickle.dumps(k.sk)), op)
        if not ok:
            return
        self.state_changing += 1
        k2 = KeyEntry(sk2, k.d, k.hash, k.Q)
        self.key_invariant(k2)
        # makes the same deterministic signature, verifies the original's
        hf = self.hashfn(k.hash)
        a = k.sk.sign_deterministic(b"pickle", hashfunc=hf)
        b = sk2.sign_deterministic(b"pickle", hashfunc=hf)
        if bytes(a) != bytes(b):
            self.fail("pickle", "key-signature", "a restored key makes a "
                      "different deterministic signature")
        try:
            okv = sk2.verifying_key.verify(a, b"pickle", hashfunc=hf)
        except Exception as ex:
            okv = ex
        if okv is not True:
            self.fail("pickle", "key-verify", "a restored key does not verify "
                      "the original's signature: %r" % (okv,))
        k.sk = sk2
        k.vk = sk2.verifying_key

    def op_reload_key(self, op):
        env = self.env
        k = self.kpick(op["i"])
        if k is None:
            return
        lk = env.lk
        fmt = op["fmt"]
        enc = op["enc"]
        hf = self.hashfn(k.hash)
        if not libx.fmt_ok(env.toy, fmt):
            fmt = "vk_string" if fmt.startswith("vk") else "string"

        def fn():
            if fmt == "string":
                return lk.SigningKey.from_string(k.sk.to_string(), env.curve,
                                                 hf)
            if fmt == "der":
                return lk.SigningKey.from_der(k.sk.to_der(enc), hf)
            if fmt == "pem":
                return lk.SigningKey.from_pem(k.sk.to_pem(enc), hf)
            if fmt == "pkcs8":
                return lk.SigningKey.from_der(k.sk.to_der(enc, "pkcs8"), hf)
            if fmt == "vk_string":
                return lk.VerifyingKey.from_string(k.vk.to_string(enc),
                                                   env.curve, hf)
            if fmt == "vk_der":
                return lk.VerifyingKey.from_der(k.vk.to_der(enc), hf)
            return lk.VerifyingKey.from_pem(k.vk.to_pem(enc), hf)
        ok, obj = self.lib_op("reload_key", fn, op)
        if not ok:
            return
        self.state_changing += 1
        same_curve = obj.curve is (k.vk if fmt.startswith("vk")
                                   else k.sk).curve
        if fmt.startswith("vk"):
            # Curve objects compare by identity, so == is only demanded when
            # both keys sit on the very same Curve object (an unpickled key
            # does not); values are compared in key_invariant either way
            if same_curve and (not (obj == k.vk) or (obj != k.vk)):
                self.fail("fresh", "reload-vk-eq", "verifying key reloaded "
                          "via %s/%s is not equal to the original" % (fmt, enc))
            k.vk = obj
        else:
            if same_curve and (not (obj == k.sk) or (obj != k.sk)):
                self.fail("fresh", "reload-sk-eq", "signing key reloaded via "
                          "%s/%s is not equal to the original" % (fmt, enc))
            k.sk = obj
            k.vk = obj.verifying_key
        self.key_invariant(k)

    def op_key_eq(self, op):
        a = self.kpick(op["i"])
        b = self.kpick(op["j"])
        if a is None:
            return
        try:
            got = (a.sk == b.sk)
            gotv = (a.vk == b.vk)
            ne = (a.sk != b.sk)
        except Exception as ex:
            self.fail("exception", "key-eq-" + type(ex).__name__,
                      "key comparison raised %r" % (ex,))
        want = a.d == b.d
        if a.sk.curve is not b.sk.curve or a.vk.curve is not b.vk.curve:
            return      # Curve objects compare by identity (unpickled keys)
        if got != want or gotv != want or ne == want:
            self.fail("equivalence", "key-eq",
                      "keys d=%d, d=%d: sk== %r, vk== %r, sk!= %r" % (
                          a.d, b.d, got, gotv, ne))

    def op_key_point(self, op):
        """Bring the key's own public point (shared, mutable representation)
        into the point pool so point operations act on it too."""
        k = self.kpick(op["i"])
        if k is None:
            return
        pt = k.vk.pubkey.point
        try:
            order = pt.order()
        except Exception:
            order = None
        self.put(pt, k.Q, int(order) if order else None, False, False)


_pts_cache = {}


def _all_points(mc):
    if mc.name not in _pts_cache:
        _pts_cache[mc.name] = ec.all_points(mc)
    return _pts_cache[mc.name]
