"""Glue between the reference model's curves and live library objects."""
import hashlib

from . import core
from .model import curves as mcurves
from .model import ec


def E():
    """The library namespace (lazily imported from the working tree)."""
    return core.lib()


def fresh_lib_curve(mc, register=False, legacy_generator=False):
    """A brand-new library Curve (own CurveFp, own generator with an empty
    table) for model curve `mc` - named or toy.  Never the process-global
    objects, so runs are independent of each other."""
    e = E()
    from ecdsa import ellipticcurve as le, curves as lc
    a = mc.a if mc.a != mc.p - 3 else -3
    if mc.p >= (1 << 24):
        # a private copy of a named curve must be *equal* (CurveFp.__eq__
        # compares p, a, b as given) to the library's own object, which the
        # DER/PEM loaders return: use the library's representation of a
        a = int(global_lib_curve(mc).curve.a())
    cf = le.CurveFp(mc.p, a, mc.b, mc.h)
    if legacy_generator:
        # a user-defined curve whose base point is a classic affine Point
        # (the key and signature code has explicit branches for that)
        g = le.Point(cf, mc.gx, mc.gy, mc.n)
    else:
        g = le.PointJacobi(cf, mc.gx, mc.gy, 1, mc.n, generator=True)
    c = lc.Curve(mc.name, cf, g, tuple(mc.oid), None)
    return c


def alias_lib_curve(mc):
    """An equal-but-distinct library Curve for `mc`: same field, equation,
    base point and order in objects of its own, under another name and OID.
    Whether the library treats it as "the same curve" is its business; it
    must not be confused with, or written into, keys of the original."""
    from ecdsa import curves as lc
    c = fresh_lib_curve(mc)
    return lc.Curve(mc.name + "_alias", c.curve, c.generator,
                    tuple(mc.oid) + (7,), None)


def global_lib_curve(mc):
    """The library's own process-global Curve object of a named curve."""
    from ecdsa import curves as lc
    for c in lc.curves:
        if c.name == mc.name:
            return c
    raise KeyError(mc.name)


def check_named_tables():
    """Compare the library's 17 curves with the frozen table.  Returns a list
    of discrepancy strings (empty when they agree)."""
    from ecdsa import curves as lc
    bad = []
    names = {c.name for c in lc.curves}
    for mc in mcurves.named():
        if mc.name not in names:
            bad.append("curve %s missing from library" % mc.name)
            continue
        c = global_lib_curve(mc)
        g = c.generator
        got = dict(p=int(c.curve.p()), a=int(c.curve.a()) % int(c.curve.p()),
                   b=int(c.curve.b()) % int(c.curve.p()), gx=int(g.x()),
                   gy=int(g.y()), n=int(c.order), h=c.curve.cofactor(),
                   oid=tuple(c.oid), baselen=c.baselen,
                   vklen=c.verifying_key_length)
        want = dict(p=mc.p, a=mc.a, b=mc.b, gx=mc.gx, gy=mc.gy, n=mc.n,
                    h=mc.h, oid=mc.oid, baselen=mc.nlen, vklen=2 * mc.plen)
        for k in want:
            if got[k] != want[k]:
                bad.append("%s.%s: library %r, table %r" % (
                    mc.name, k, got[k], want[k]))
    for n_ in sorted(names - {m.name for m in mcurves.named()}):
        bad.append("library curve %s not in frozen table" % n_)
    return bad


# ------------------------------------------------------ synthetic hashes ---

class _SynthHash(object):
    """hashlib-compatible hash with an arbitrary digest size (SHAKE-256
    based).  digest_size / block_size / name / update / digest / copy."""
    digest_size = 0
    block_size = 136
    name = "synth"

    def __init__(self, data=b""):
        self._h = hashlib.shake_256()
        self._h.update(b"synth%d:" % self.digest_size)
        if data:
            self._h.update(bytes(data))

    def update(self, data):
        self._h.update(bytes(data))

    def digest(self):
        return self._h.digest(self.digest_size)

    def hexdigest(self):
        return self.digest().hex()

    def copy(self):
        o = self.__class__.__new__(self.__class__)
        o._h = self._h.copy()
        return o


_synth_cache = {}


def synth_hash(nbytes):
    if nbytes not in _synth_cache:
        name = "synth%d" % nbytes
        cls = type(name, (_SynthHash,), dict(digest_size=nbytes, name=name,
                                             __module__=__name__))
        globals()[name] = cls       # picklable by reference
        _synth_cache[nbytes] = cls
    return _synth_cache[nbytes]


for _n in (4, 5, 6, 8, 12, 16, 20, 21, 24, 28, 29, 32, 33, 40, 48, 64, 65, 66,
           67, 80, 96):
    synth_hash(_n)


STD_HASHES = {"sha1": hashlib.sha1, "sha224": hashlib.sha224,
              "sha256": hashlib.sha256, "sha384": hashlib.sha384,
              "sha512": hashlib.sha512, "md5": hashlib.md5,
              "sha3_256": hashlib.sha3_256}


def hash_by_name(name):
    if name.startswith("synth"):
        return synth_hash(int(name[5:]))
    return STD_HASHES[name]


def pick_hash_name(r, toy):
    if r.random() < (0.6 if toy else 0.35):
        return "synth%d" % r.choice([4, 5, 6, 8, 12, 16, 20, 21, 24, 28, 29,
                                     32, 33, 40, 48, 64, 65, 66, 67, 80, 96])
    return r.choice(sorted(STD_HASHES))


# ------------------------------------------------------------- scalars -----

def structured_scalar(r, n, allow_neg=True, hi_mult=4):
    """Scalars that stress recoding and reduction: dense around 0, n, 2n on
    small n; bit patterns; random up to hi_mult*n; negatives."""
    c = r.randrange(13)
    if c == 12 and r.random() < 0.08:
        # thousands of bits (far beyond any fixed-width recoding)
        v = (1 << r.choice([600, 1100, 2080, 2083, 2084, 2090, 3000, 4100])) \
            + r.choice([-1, 0, 1, r.getrandbits(64)])
        if r.random() < 0.3:
            v = r.getrandbits(r.choice([2100, 3000]))
        if allow_neg and r.random() < 0.4:
            v = -v
        return v
    if c == 12:
        # far outside the reduction window, both signs
        v = r.choice([r.randrange(4 * n, 64 * n + 1),
                      (1 << (2 * n.bit_length() + r.randrange(0, 9))) +
                      r.randrange(-2, 3),
                      n * r.randrange(5, 40) + r.randrange(-2, 3)])
        if allow_neg and r.random() < 0.5:
            v = -v
        return v
    if c == 0:
        v = r.choice([0, 1, 2, 3, n - 1, n, n + 1, 2 * n - 1, 2 * n,
                      2 * n + 1, 2 * n + 3, n - 2, n // 2, (n + 1) // 2])
    elif c == 1:
        v = 1 << r.randrange(0, (hi_mult * n).bit_length() + 1)
    elif c == 2:
        v = (1 << r.randrange(1, (hi_mult * n).bit_length() + 1)) - 1
    elif c == 3:
        bits = r.randrange(2, (hi_mult * n).bit_length() + 1)
        pat = r.choice(["10", "110", "1110", "01", "1011", "1101"])
        v = int((pat * bits)[:bits], 2)
    elif c in (4, 5, 6):
        v = r.randrange(-3, 2 * n + 4)
    elif c == 7:
        v = r.randrange(0, hi_mult * n + 1)
    elif c == 8:
        v = n * r.randrange(0, hi_mult + 1) + r.choice([-2, -1, 0, 1, 2])
    elif c == 9:
        v = r.randrange(0, 8)
    else:
        v = r.randrange(1, n)
    if allow_neg and r.random() < 0.15:
        v = -v
    return v


def key_scalar(r, n):
    """Private scalars / nonces in [1, n-1] with boundary bias."""
    c = r.randrange(8)
    if c == 0:
        v = r.choice([1, 2, 3, n - 1, n - 2, n // 2, (n + 1) // 2])
    elif c == 1:
        v = 1 << r.randrange(0, n.bit_length())
    elif c == 2:
        v = (1 << r.randrange(1, n.bit_length() + 1)) - 1
    elif c == 3:
        # leading zero byte(s) in the fixed-length encoding
        nb = (n.bit_length() + 7) // 8
        v = r.randrange(1, max(2, 1 << (8 * max(nb - 1, 0)))) if nb > 1 else r.randrange(1, n)
    else:
        v = r.randrange(1, n)
    v %= n
    return v or 1


# --------------------------------------------------- curve registration ----

class registered(object):
    """Context manager: make a fresh (toy) Curve findable by OID for the
    DER/PEM loaders during one run."""

    def __init__(self, curve, on=True):
        self.curve = curve
        self.on = on

    def __enter__(self):
        if self.on:
            from ecdsa import curves as lc
            lc.curves.append(self.curve)
        return self.curve

    def __exit__(self, *a):
        if self.on:
            from ecdsa import curves as lc
            try:
                lc.curves.remove(self.curve)
            except ValueError:
                pass
        return False


_lz = {}


def leading_zero_scalars(name):
    """Frozen data: scalars d whose public point d*G has a leading zero byte
    in x ('x0') or y ('y0') on the named curve."""
    if not _lz:
        import json
        import os
        with open(os.path.join(os.path.dirname(__file__), "model",
                               "leading_zero.json")) as f:
            _lz.update(json.load(f))
    return _lz.get(name, {"x0": [], "y0": []})


def run_curve(mc, legacy_generator=False):
    """(library Curve, is_toy) for a run: toy curves are built fresh, named
    curves are the library's own objects (the loaders return those)."""
    toy = mc.p < (1 << 24)
    return (fresh_lib_curve(mc, legacy_generator=legacy_generator) if toy
            else global_lib_curve(mc)), toy


_tables_checked = []


def named_table_discrepancies():
    if not _tables_checked:
        _tables_checked.append(check_named_tables())
    return _tables_checked[0]


_exported_checked = []


def exported_curve_roundtrips():
    """Every `Curve` object the package exports (an attribute of ecdsa or
    ecdsa.curves) that the frozen table does not know - a curve added by a
    change - must still round-trip its keys through DER and PEM: the model has
    no parameters for it, so this is the library against itself.  Returns a
    list of problem strings (empty when all is well); computed once per
    process."""
    if _exported_checked:
        return _exported_checked[0]
    import ecdsa
    from ecdsa import curves as lc, keys as lk
    known = set(c.name for c in mcurves.named())
    seen = {}
    for mod in (lc, ecdsa):
        for name, v in vars(mod).items():
            if isinstance(v, lc.Curve) and v.name not in known:
                seen[id(v)] = (name, v)
    bad = []
    for name, c in sorted(seen.values(), key=lambda t: t[0]):
        try:
            d = 1 + (0x1234567 % (int(c.order) - 1))
            sk = lk.SigningKey.from_secret_exponent(d, c)
            vk = sk.verifying_key
            for what, back in (
                    ("sk ssleay der", lambda: lk.SigningKey.from_der(
                        sk.to_der(format="ssleay"))),
                    ("sk pkcs8 der", lambda: lk.SigningKey.from_der(
                        sk.to_der(format="pkcs8"))),
                    ("sk pem", lambda: lk.SigningKey.from_pem(sk.to_pem())),
                    ("vk der", lambda: lk.VerifyingKey.from_der(vk.to_der())),
                    ("vk pem", lambda: lk.VerifyingKey.from_pem(vk.to_pem())),
                    ("vk string", lambda: lk.VerifyingKey.from_string(
                        vk.to_string("compressed"), c))):
                try:
                    k2 = back()
                except Exception as ex:
                    bad.append("%s: %s of a key on the exported curve %s "
                               "cannot be loaded back: %s(%s)" % (
                                   name, what, c.name, type(ex).__name__, ex))
                    break
                if k2.curve is not c or \
                        bytes(k2.to_string()) != bytes(
                            (sk if what.startswith("sk") else vk).to_string()):
                    bad.append("%s: %s round trip on the exported curve %s "
                               "gives another key or curve" % (name, what,
                                                               c.name))
                    break
        except Exception as ex:
            bad.append("%s: %s(%s)" % (name, type(ex).__name__, ex))
    _exported_checked.append(bad)
    return bad


_toy_der = []


def toy_der_ok():
    """Can a user-defined curve be made findable by OID by appending it to
    ecdsa.curves.curves (what `registered` does)?  If a future library looks
    curves up differently, DER/PEM *loading* on toy curves is simply not
    exercised (named curves still are) instead of raising false alarms."""
    if not _toy_der:
        from ecdsa import curves as lc
        from .model import curves as mcurves
        ok = True
        # two probes: an index built lazily on the *first* lookup would find
        # the first probe curve but not one appended afterwards
        for n_, mc in enumerate(mcurves.toy()[:2]):
            c = fresh_lib_curve(mc)
            # a probe-only OID, so that no curve a run has registered (or the
            # library knows) can answer for it
            c.oid = tuple(mc.oid) + (424242, n_)
            try:
                lc.curves.append(c)
                ok = ok and (lc.find_curve(c.oid) is c)
            except Exception:
                ok = False
            finally:
                try:
                    lc.curves.remove(c)
                except ValueError:
                    pass
        _toy_der.append(ok)
    return _toy_der[0]


def fmt_ok(toy, fmt):
    """Is this serialisation format usable for *loading* on this curve?"""
    if not toy or toy_der_ok():
        return True
    return not any(t in fmt for t in ("der", "pem", "pkcs8"))
