"""One-off (development time) builder of the frozen curve table curves.json.

  * toy curves are *searched* with the model's own arithmetic;
  * the 17 named curves are *extracted* from the library once.  After that
    the JSON file is data: `curves.validate()` re-checks it mathematically at
    setup, so a later change of a constant in /repo disagrees with the table
    instead of being inherited by it.

Run:  /venv/bin/python -m dsim.model.build_curves   (from /verif)
"""
import json
import os
import sys

from . import ec


def count_points(p, a, b):
    n = 1
    for x in range(p):
        n += 1 + ec.legendre(x * x * x + a * x + b, p)
    return n


def find_gen(c_p, a, b, N, n, h):
    tmp = ec.MCurve("tmp", c_p, a, b, 0, 0, n, h)
    for x in range(c_p):
        rhs = (x * x * x + a * x + b) % c_p
        y = ec.sqrt_mod(rhs, c_p)
        if y is None:
            continue
        P = (x, y)
        G = ec.mul(tmp, h, P)
        if G is ec.O:
            continue
        if ec.mul(tmp, n, G) is ec.O:
            return G
    return None


def search(p, a_kind, want_h, skip=0, n_pred=None):
    """first (a, b) with group order = want_h * prime n (n > 3)"""
    if a_kind == "zero":
        a_list = [0]
    elif a_kind == "m3":
        a_list = [p - 3]
    else:
        a_list = [a for a in range(1, p) if a not in (p - 3,)]
    for a in a_list:
        for b in range(1, p):
            if (4 * a ** 3 + 27 * b * b) % p == 0:
                continue
            N = count_points(p, a, b)
            if N % want_h:
                continue
            n = N // want_h
            if n < 5 or not ec.is_prime(n):
                continue
            if want_h > 1 and n <= want_h:
                continue
            if n_pred and not n_pred(n, p):
                continue
            if skip:
                skip -= 1
                continue
            G = find_gen(p, a, b, N, n, want_h)
            if G is None:
                continue
            return a, b, n, G
    return None


def toy_table():
    out = []
    specs = [
        # (p, a_kind, h, predicate-name)
        (23, "gen", 1, None), (31, "zero", 1, None), (43, "m3", 1, None),
        (61, "gen", 1, None), (67, "zero", 1, None), (97, "m3", 1, None),
        (127, "gen", 1, "n<p"), (127, "gen", 1, "n>p"),
        (251, "m3", 1, "n>255"),       # p one byte, n two bytes
        (263, "gen", 1, "n<256"),      # p two bytes, n one byte
        (509, "gen", 1, None), (1021, "m3", 1, "n<p"), (1039, "gen", 1, "n>p"),
        (4093, "gen", 1, None), (65521, "m3", 1, None),
        # cofactor curves (even order: points with y == 0 exist)
        (53, "gen", 2, None), (101, "gen", 4, None), (211, "gen", 4, None),
        (131, "gen", 3, None),         # odd cofactor: no 2-torsion
        (1031, "gen", 4, None),
    ]
    preds = {
        None: None,
        "n<p": lambda n, p: n < p,
        "n>p": lambda n, p: n > p,
        "n>255": lambda n, p: n > 255,
        "n<256": lambda n, p: n < 256,
    }
    for i, (p, kind, h, pn) in enumerate(specs):
        r = search(p, kind, h, n_pred=preds[pn])
        if r is None:
            print("no curve for", p, kind, h, pn, file=sys.stderr)
            continue
        a, b, n, G = r
        out.append(dict(name="toy%d_%s_h%d%s" % (p, kind, h, ("_" + pn.replace("<", "lt").replace(">", "gt")) if pn else ""),
                        p=p, a=a, b=b, gx=G[0], gy=G[1], n=n, h=h,
                        oid=[1, 3, 9999, p, a, b], toy=True))
    return out


def cousin(base):
    """A second curve over the same field that contains the same base point
    with the same prime order (h = 1), with other coefficients: exposes state
    shared between curves under a key that omits a or b.  The two cousins in
    curves.json (of toy4093_gen_h1 and toy509_gen_h1) were found with this and
    appended by hand; `curves.validate()` re-checks them like every curve."""
    p, gx, gy, n = base["p"], base["gx"], base["gy"], base["n"]
    for a in range(1, p):
        if a in (base["a"], p - 3):
            continue
        b = (gy * gy - gx ** 3 - a * gx) % p
        if b == 0 or (4 * a ** 3 + 27 * b * b) % p == 0:
            continue
        if count_points(p, a, b) == n:
            return dict(name=base["name"].replace("_gen_", "_cousin_"), p=p,
                        a=a, b=b, gx=gx, gy=gy, n=n, h=1,
                        oid=[1, 3, 9999, p, a, b], toy=True)
    return None


def named_table():
    repo = os.environ.get("VERIF_REPO", "/repo")
    sys.path.insert(0, repo + "/src")
    sys.dont_write_bytecode = True
    from ecdsa import curves as lc
    out = []
    for c in lc.curves:
        g = c.generator
        out.append(dict(name=c.name, p=int(c.curve.p()), a=int(c.curve.a()) % int(c.curve.p()),
                        b=int(c.curve.b()), gx=int(g.x()), gy=int(g.y()),
                        n=int(c.order), h=int(c.curve.cofactor()),
                        oid=list(c.oid), toy=False))
    return out


def main():
    toys = toy_table()
    for nm in ("toy4093_gen_h1", "toy509_gen_h1"):
        c = cousin([t for t in toys if t["name"] == nm][0])
        if c:
            toys.append(c)
    tbl = dict(named=named_table(), toy=toys)
    here = os.path.dirname(os.path.abspath(__file__))
    with open(os.path.join(here, "curves.json"), "w") as f:
        json.dump(tbl, f, indent=1, sort_keys=True)
    print("named", len(tbl["named"]), "toy", len(tbl["toy"]))
    for t in tbl["toy"]:
        print(t["name"], t["p"], t["a"], t["b"], "n=", t["n"], "h=", t["h"])


if __name__ == "__main__":
    main()
