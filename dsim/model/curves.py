"""Frozen curve table (data in curves.json) and its mathematical validation."""
import json
import os

from . import ec

_HERE = os.path.dirname(os.path.abspath(__file__))
_CACHE = {}


def _load():
    if not _CACHE:
        with open(os.path.join(_HERE, "curves.json")) as f:
            tbl = json.load(f)
        for kind in ("named", "toy"):
            lst = []
            for d in tbl[kind]:
                c = ec.MCurve(d["name"], d["p"], d["a"], d["b"], d["gx"],
                              d["gy"], d["n"], d["h"], d["oid"])
                lst.append(c)
            _CACHE[kind] = lst
        _CACHE["by_name"] = {c.name: c for k in ("named", "toy")
                             for c in _CACHE[k]}
    return _CACHE


def named():
    return list(_load()["named"])


def toy():
    return list(_load()["toy"])


def by_name(name):
    return _load()["by_name"][name]


def by_oid(oid):
    oid = tuple(oid)
    for c in named():
        if c.oid == oid:
            return c
    return None


def isqrt(n):
    import math
    return math.isqrt(n)


def validate():
    """Check the frozen table with the model's own arithmetic.  Raises
    AssertionError with the offending curve on any inconsistency."""
    t = _load()
    assert len(t["named"]) == 17, len(t["named"])
    for c in t["named"] + t["toy"]:
        assert ec.is_prime(c.p), (c, "p not prime")
        assert ec.is_prime(c.n), (c, "n not prime")
        assert (4 * c.a ** 3 + 27 * c.b ** 2) % c.p, (c, "singular")
        assert 0 <= c.gx < c.p and 0 <= c.gy < c.p, c
        assert ec.on_curve(c, c.G), (c, "G off curve")
        assert ec.mul(c, c.n, c.G) is ec.O, (c, "nG != O")
        assert ec.mul(c, 1, c.G) == c.G
        # Hasse: |h*n - (p+1)| <= 2 sqrt(p)
        d = abs(c.h * c.n - (c.p + 1))
        assert d * d <= 4 * c.p, (c, "Hasse")
        if c.p < 70000:
            pts = ec.all_points(c)
            assert len(pts) + 1 == c.h * c.n, (c, len(pts) + 1, c.h * c.n)
    names = [c.name for c in t["named"] + t["toy"]]
    assert len(set(names)) == len(names)
    oids = [c.oid for c in t["named"]]
    assert len(set(oids)) == len(oids)
    return len(t["named"]), len(t["toy"])
