"""Reference model: a strict DER (X.690) reader/writer and the EC key
structures built on it (RFC 5480 SubjectPublicKeyInfo, RFC 5915 ECPrivateKey,
RFC 5958 OneAsymmetricKey), plus PEM armour.  Shares no code with /repo.
"""
import base64


class DERError(Exception):
    pass


# ------------------------------------------------------------- writer ------

def enc_len(n):
    if n < 0x80:
        return bytes([n])
    body = n.to_bytes((n.bit_length() + 7) // 8, "big")
    return bytes([0x80 | len(body)]) + body


def tlv(tag, body):
    return bytes([tag]) + enc_len(len(body)) + body


def enc_int(v):
    if v < 0:
        raise DERError("negative")
    body = v.to_bytes(max(1, (v.bit_length() + 7) // 8), "big")
    if body[0] & 0x80:
        body = b"\x00" + body
    return tlv(0x02, body)


def enc_arc(v):
    out = [v & 0x7F]
    v >>= 7
    while v:
        out.append((v & 0x7F) | 0x80)
        v >>= 7
    return bytes(reversed(out))


def enc_oid(arcs):
    arcs = tuple(arcs)
    first, second = arcs[0], arcs[1]
    body = enc_arc(40 * first + second) + b"".join(enc_arc(a) for a in arcs[2:])
    return tlv(0x06, body)


def enc_octets(b):
    return tlv(0x04, bytes(b))


def enc_bits(b, unused=0):
    return tlv(0x03, bytes([unused]) + bytes(b))


def enc_seq(*parts):
    return tlv(0x30, b"".join(parts))


def enc_ctx(tagno, body):
    return tlv(0xA0 + tagno, body)


# ------------------------------------------------------------- reader ------

def read_tl(buf, pos=0):
    """Return (tag, length, header_len) with strict DER length rules."""
    if pos >= len(buf):
        raise DERError("empty")
    tag = buf[pos]
    if pos + 1 >= len(buf):
        raise DERError("no length")
    b0 = buf[pos + 1]
    if b0 < 0x80:
        return tag, b0, 2
    ll = b0 & 0x7F
    if ll == 0:
        raise DERError("indefinite length")
    if pos + 2 + ll > len(buf):
        raise DERError("length of length overruns")
    lb = buf[pos + 2:pos + 2 + ll]
    if lb[0] == 0:
        raise DERError("non-minimal length")
    n = int.from_bytes(lb, "big")
    if n < 0x80:
        raise DERError("non-minimal length")
    return tag, n, 2 + ll


def read_tlv(buf, want_tag=None):
    """Return (tag, body, rest)."""
    buf = bytes(buf)
    tag, ln, hl = read_tl(buf)
    if want_tag is not None and tag != want_tag:
        raise DERError("tag %02x, wanted %02x" % (tag, want_tag))
    if hl + ln > len(buf):
        raise DERError("body overruns")
    return tag, buf[hl:hl + ln], buf[hl + ln:]


def dec_int(buf):
    _, body, rest = read_tlv(buf, 0x02)
    if not body:
        raise DERError("empty integer")
    if body[0] & 0x80:
        raise DERError("negative integer")
    if len(body) > 1 and body[0] == 0 and not (body[1] & 0x80):
        raise DERError("non-minimal integer")
    return int.from_bytes(body, "big"), rest


def dec_oid(buf):
    _, body, rest = read_tlv(buf, 0x06)
    if not body:
        raise DERError("empty oid")
    if body[-1] & 0x80:
        raise DERError("truncated arc")
    arcs = []
    v = 0
    start = True
    for b in body:
        if start and b == 0x80:
            raise DERError("padded arc")
        start = False
        v = (v << 7) | (b & 0x7F)
        if not b & 0x80:
            arcs.append(v)
            v = 0
            start = True
    n0 = arcs[0]
    if n0 < 80:
        first, second = divmod(n0, 40)
    else:
        first, second = 2, n0 - 80
    return (first, second) + tuple(arcs[1:]), rest


def dec_octets(buf):
    _, body, rest = read_tlv(buf, 0x04)
    return body, rest


def dec_bits(buf):
    """Return ((bits_bytes, unused), rest)."""
    _, body, rest = read_tlv(buf, 0x03)
    if not body:
        raise DERError("empty bit string body")
    unused = body[0]
    if unused > 7:
        raise DERError("unused > 7")
    data = body[1:]
    if unused:
        if not data:
            raise DERError("unused without data")
        if data[-1] & ((1 << unused) - 1):
            raise DERError("non-zero padding")
    return (data, unused), rest


def dec_seq(buf):
    _, body, rest = read_tlv(buf, 0x30)
    return body, rest


def dec_ctx(buf):
    buf = bytes(buf)
    if not buf:
        raise DERError("empty")
    if buf[0] & 0xE0 != 0xA0:
        raise DERError("not context constructed")
    tag, body, rest = read_tlv(buf)
    return tag & 0x1F, body, rest


def dec_sig(buf):
    """Strict Ecdsa-Sig-Value."""
    body, rest = dec_seq(buf)
    if rest:
        raise DERError("trailing")
    r, body = dec_int(body)
    s, body = dec_int(body)
    if body:
        raise DERError("trailing inside")
    return r, s


def enc_sig(r, s):
    return enc_seq(enc_int(r), enc_int(s))


# --------------------------------------------------------- key structures --

OID_EC_PUBLIC_KEY = (1, 2, 840, 10045, 2, 1)
OID_ECDH = (1, 3, 132, 1, 12)
OID_ECMQV = (1, 3, 132, 1, 13)


def spki(curve_oid, point_bytes):
    return enc_seq(enc_seq(enc_oid(OID_EC_PUBLIC_KEY), enc_oid(curve_oid)),
                   enc_bits(point_bytes, 0))


def parse_spki(buf):
    """Return (curve_oid, point_bytes).  Raises DERError."""
    body, rest = dec_seq(buf)
    if rest:
        raise DERError("trailing")
    alg, body = dec_seq(body)
    oid, alg = dec_oid(alg)
    curve_oid, alg = dec_oid(alg)
    if alg:
        raise DERError("trailing in algorithm")
    if oid != OID_EC_PUBLIC_KEY:
        raise DERError("not id-ecPublicKey")
    (bits, unused), body = dec_bits(body)
    if unused != 0:
        raise DERError("unused bits")
    if body:
        raise DERError("trailing after bit string")
    return curve_oid, bits


def ec_private_key(curve_oid, d_bytes, point_bytes):
    return enc_seq(enc_int(1), enc_octets(d_bytes),
                   enc_ctx(0, enc_oid(curve_oid)),
                   enc_ctx(1, enc_bits(point_bytes, 0)))


def pkcs8(curve_oid, d_bytes, point_bytes, version=1):
    return enc_seq(enc_int(version),
                   enc_seq(enc_oid(OID_EC_PUBLIC_KEY), enc_oid(curve_oid)),
                   enc_octets(ec_private_key(curve_oid, d_bytes, point_bytes)))


def parse_ec_private_key(buf, need_curve=True):
    """Return (curve_oid or None, d_bytes, point_bytes or None)."""
    body, rest = dec_seq(buf)
    if rest:
        raise DERError("trailing")
    ver, body = dec_int(body)
    if ver != 1:
        raise DERError("version")
    d, body = dec_octets(body)
    curve_oid = None
    point = None
    if body and body[0] == 0xA0:
        _, inner, body = dec_ctx(body)
        curve_oid, inner = dec_oid(inner)
        if inner:
            raise DERError("trailing in parameters")
    elif need_curve:
        raise DERError("no parameters")
    if body and body[0] == 0xA1:
        _, inner, body = dec_ctx(body)
        (point, unused), inner = dec_bits(inner)
        if unused or inner:
            raise DERError("bad public key field")
    if body:
        raise DERError("trailing fields")
    return curve_oid, d, point


def parse_pkcs8(buf):
    body, rest = dec_seq(buf)
    if rest:
        raise DERError("trailing")
    ver, body = dec_int(body)
    if ver not in (0, 1):
        raise DERError("version")
    alg, body = dec_seq(body)
    oid, alg = dec_oid(alg)
    curve_oid, alg = dec_oid(alg)
    if alg:
        raise DERError("trailing in algorithm")
    if oid not in (OID_EC_PUBLIC_KEY, OID_ECDH, OID_ECMQV):
        raise DERError("algorithm")
    inner, body = dec_octets(body)
    # attributes / publicKey ignored
    c2, d, point = parse_ec_private_key(inner, need_curve=False)
    if c2 is not None and c2 != curve_oid:
        raise DERError("curve mismatch")
    return curve_oid, d, point


def pem(der_bytes, label):
    b64 = base64.b64encode(der_bytes)
    out = [b"-----BEGIN " + label.encode() + b"-----\n"]
    for i in range(0, len(b64), 64):
        out.append(b64[i:i + 64] + b"\n")
    out.append(b"-----END " + label.encode() + b"-----\n")
    return b"".join(out)
