"""Reference model: textbook short-Weierstrass arithmetic, ECDSA, ECDH,
public-key validation.  Shares no code with /repo.  Deliberately slow and
representation-free: a point is an affine pair (x, y) of canonical residues, or
``O`` (None) for the identity.
"""
import hashlib

O = None


class MCurve(object):
    __slots__ = ("name", "p", "a", "b", "gx", "gy", "n", "h", "oid", "plen",
                 "nlen", "group_order")

    def __init__(self, name, p, a, b, gx, gy, n, h, oid=None):
        self.name = name
        self.p = p
        self.a = a % p
        self.b = b % p
        self.gx = gx
        self.gy = gy
        self.n = n
        self.h = h
        self.oid = tuple(oid) if oid else None
        self.plen = bytelen(p)
        self.nlen = bytelen(n)
        self.group_order = n * h

    @property
    def G(self):
        return (self.gx, self.gy)

    def __repr__(self):
        return "MCurve(%s)" % self.name


def bytelen(v):
    return (max(v.bit_length(), 1) + 7) // 8


def inv(a, m):
    """Modular inverse (CPython's built-in; independent of the library's
    numbertheory module)."""
    a %= m
    if a == 0:
        raise ZeroDivisionError("no inverse")
    try:
        return pow(a, -1, m)
    except ValueError:
        raise ZeroDivisionError("not invertible")


def on_curve(c, P):
    if P is O:
        return True
    x, y = P
    return (y * y - (x * x * x + c.a * x + c.b)) % c.p == 0


def neg(c, P):
    if P is O:
        return O
    x, y = P
    return (x, (-y) % c.p)


def add(c, P, Q):
    if P is O:
        return Q
    if Q is O:
        return P
    p = c.p
    x1, y1 = P
    x2, y2 = Q
    if x1 == x2:
        if (y1 + y2) % p == 0:
            return O
        # P == Q, y != 0
        lam = (3 * x1 * x1 + c.a) * inv(2 * y1, p) % p
    else:
        lam = (y2 - y1) * inv(x2 - x1, p) % p
    x3 = (lam * lam - x1 - x2) % p
    y3 = (lam * (x1 - x3) - y1) % p
    return (x3, y3)


def dbl(c, P):
    return add(c, P, P)


def mul(c, k, P):
    """k-fold group sum of P for any integer k (binary double-and-add)."""
    if k < 0:
        return mul(c, -k, neg(c, P))
    R = O
    Q = P
    while k:
        if k & 1:
            R = add(c, R, Q)
        Q = add(c, Q, Q)
        k >>= 1
    return R


def point_order(c, P, cap=1 << 20):
    """Order of P by repeated addition (toy curves only)."""
    if P is O:
        return 1
    Q = P
    i = 1
    while Q is not O:
        Q = add(c, Q, P)
        i += 1
        if i > cap:
            raise ValueError("order too large")
    return i


def all_points(c):
    """Every affine point of a toy curve (brute force)."""
    p = c.p
    sq = {}
    for y in range(p):
        sq.setdefault(y * y % p, []).append(y)
    pts = []
    for x in range(p):
        rhs = (x * x * x + c.a * x + c.b) % p
        for y in sq.get(rhs, ()):
            pts.append((x, y))
    return pts


def legendre(a, p):
    a %= p
    if a == 0:
        return 0
    return 1 if pow(a, (p - 1) // 2, p) == 1 else -1


def sqrt_mod(a, p):
    """Tonelli-Shanks; returns one root or None."""
    a %= p
    if a == 0:
        return 0
    if p == 2:
        return a
    if legendre(a, p) != 1:
        return None
    if p % 4 == 3:
        return pow(a, (p + 1) // 4, p)
    q = p - 1
    s = 0
    while q % 2 == 0:
        q //= 2
        s += 1
    z = 2
    while legendre(z, p) != -1:
        z += 1
    m = s
    cc = pow(z, q, p)
    t = pow(a, q, p)
    r = pow(a, (q + 1) // 2, p)
    while t != 1:
        i = 0
        t2 = t
        while t2 != 1:
            t2 = t2 * t2 % p
            i += 1
        b = pow(cc, 1 << (m - i - 1), p)
        m = i
        cc = b * b % p
        t = t * cc % p
        r = r * b % p
    return r


def is_prime(n):
    if n < 2:
        return False
    small = (2, 3, 5, 7, 11, 13, 17, 19, 23, 29, 31, 37)
    for q in small:
        if n % q == 0:
            return n == q
    d = n - 1
    s = 0
    while d % 2 == 0:
        d //= 2
        s += 1
    # deterministic for n < 3.3e24 with these bases; for larger n these 12
    # bases plus 20 derived bases are an adequate sanity check of frozen data
    bases = list(small) + [
        2 + int.from_bytes(hashlib.sha256(b"%d:%d" % (n, i)).digest(), "big")
        % (n - 3) for i in range(20)]
    for a in bases:
        a %= n
        if a in (0, 1, n - 1):
            continue
        x = pow(a, d, n)
        if x in (1, n - 1):
            continue
        for _ in range(s - 1):
            x = x * x % n
            if x == n - 1:
                break
        else:
            return False
    return True


# ---------------------------------------------------------------- ECDSA ----

def digest_to_int(digest, n):
    """Leftmost min(8*len, bitlen(n)) bits of the digest, big endian."""
    e = int.from_bytes(digest, "big")
    blen = 8 * len(digest)
    nbits = max(n.bit_length(), 1)
    if blen > nbits:
        e >>= blen - nbits
    return e


def ecdsa_sign(c, d, e, k):
    """Textbook ECDSA.  Returns (r, s) or None when r == 0 or s == 0."""
    n = c.n
    R = mul(c, k, c.G)
    if R is O:
        return None
    r = R[0] % n
    if r == 0:
        return None
    s = inv(k, n) * (e + r * d) % n
    if s == 0:
        return None
    return (r, s)


def ecdsa_verify(c, Q, e, r, s):
    """FIPS 186-4 6.4.2 / SEC1 4.1.4."""
    n = c.n
    if not (1 <= r <= n - 1 and 1 <= s <= n - 1):
        return False
    w = inv(s, n)
    u1 = e * w % n
    u2 = r * w % n
    R = add(c, mul(c, u1, c.G), mul(c, u2, Q))
    if R is O:
        return False
    return R[0] % n == r


def ecdh(c, d, Q):
    """x(d*Q) or None if the result is the identity."""
    S = mul(c, d, Q)
    if S is O:
        return None
    return S[0]


# ------------------------------------------------- public-key validation ----

def in_subgroup(c, P):
    if c.h == 1:
        return True
    return mul(c, c.n, P) is O


def validate_point(c, P):
    """Full public-key validation of an affine pair of integers.
    Returns None if valid, else a reason string."""
    if P is O:
        return "infinity"
    x, y = P
    if not (0 <= x < c.p and 0 <= y < c.p):
        return "range"
    if not on_curve(c, P):
        return "off-curve"
    if not in_subgroup(c, P):
        return "subgroup"
    return None


def decode_point(c, data, allow_raw=True):
    """SEC1 2.3.4 plus the library's 'raw' (x||y) form.
    Returns ('ok', (x, y)) or ('bad', reason)."""
    data = bytes(data)
    L = c.plen
    ln = len(data)
    if ln == 2 * L:
        if not allow_raw:
            return ("bad", "raw-not-allowed")
        x = int.from_bytes(data[:L], "big")
        y = int.from_bytes(data[L:], "big")
    elif ln == 2 * L + 1:
        pre = data[0]
        x = int.from_bytes(data[1:1 + L], "big")
        y = int.from_bytes(data[1 + L:], "big")
        if pre == 4:
            pass
        elif pre in (6, 7):
            if (y & 1) != (pre & 1):
                # range errors are also errors: either way rejected
                return ("bad", "hybrid-parity")
        else:
            return ("bad", "prefix")
    elif ln == L + 1:
        pre = data[0]
        if pre not in (2, 3):
            return ("bad", "prefix")
        x = int.from_bytes(data[1:], "big")
        if x >= c.p:
            return ("bad", "range")
        rhs = (x * x * x + c.a * x + c.b) % c.p
        y = sqrt_mod(rhs, c.p)
        if y is None:
            return ("bad", "non-residue")
        if (y & 1) != (pre & 1):
            y = (c.p - y) % c.p
            if (y & 1) != (pre & 1):
                # y == 0 and prefix 03: no root of that parity
                return ("bad", "parity-unsatisfiable")
    else:
        return ("bad", "length")
    why = validate_point(c, (x, y))
    if why:
        return ("bad", why)
    return ("ok", (x, y))


def encode_point(c, P, encoding):
    x, y = P
    L = c.plen
    xs = x.to_bytes(L, "big")
    ys = y.to_bytes(L, "big")
    if encoding == "raw":
        return xs + ys
    if encoding == "uncompressed":
        return b"\x04" + xs + ys
    if encoding == "hybrid":
        return bytes([6 + (y & 1)]) + xs + ys
    if encoding == "compressed":
        return bytes([2 + (y & 1)]) + xs
    raise ValueError(encoding)
