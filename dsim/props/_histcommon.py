"""Shared by the three histsim checks (C06, C07, C19): they differ in the
operation mix, in the curves they use and in the budget; the engine and the
oracles are the same."""
from .. import core, hist
from ..model import curves as mcurves

LEVEL = "exploration"
COMPONENTS_REAL = ["ecdsa.ellipticcurve (PointJacobi, Point, INFINITY, "
                   "CurveFp)", "ecdsa.keys / ecdsa.ecdsa / ecdsa.util / "
                   "ecdsa.der / ecdsa.rfc6979 as reached through keys",
                   "pickle"]
COMPONENTS_STUB = ["none inside the library; oracle = reference model "
                   "(dsim/model) + freshly constructed library objects"]
ASSUMPTIONS = ["reference model (textbook affine arithmetic, ECDSA) is "
               "correct; it is validated against the library on the unchanged "
               "tree and against the frozen curve table",
               "toy curves (p <= 65521) stand in for 'all fields': sampling, "
               "not proof", "pure-int paths only (no gmpy installed)"]
SHRINK = [["ops"]]


def odd_toys():
    return [c.name for c in mcurves.toy() if (c.n * c.h) % 2 == 1
            and c.p < 5000]


def even_toys():
    return [c.name for c in mcurves.toy() if (c.n * c.h) % 2 == 0]


def named_small():
    return ["SECP112r1", "SECP128r1", "SECP160r1", "NIST192p", "NIST224p",
            "NIST256p", "SECP256k1", "BRAINPOOLP160r1", "BRAINPOOLP256r1"]


def simplify(prog):
    """Argument simplification after ddmin: drop faults, shrink scalars."""
    import copy
    for i, op in enumerate(prog["ops"]):
        if "fault" in op:
            c = copy.deepcopy(prog)
            del c["ops"][i]["fault"]
            yield c
    for i, op in enumerate(prog["ops"]):
        for key in ("k", "a", "b"):
            v = op.get(key)
            if isinstance(v, int) and abs(v) > 3:
                for nv in (1, 2, v // 2):
                    c = copy.deepcopy(prog)
                    c["ops"][i][key] = nv
                    yield c
        if op.get("z", 1) != 1:
            c = copy.deepcopy(prog)
            c["ops"][i]["z"] = 1
            yield c


def execute(prog):
    return hist.execute(prog)
