"""C01 - every signature the library makes verifies under the matching key.

Signer -> (intact channel) -> verifier.  What the simulator controls: the
entropy source of the nonce, and 'restarts' of the verifier (and signer)
between signing and verifying: the key is persisted in a seeded format and
reloaded, possibly for several generations, with precompute() before or after.
"""
import random

from .. import core, formats, libx, world
from ..model import curves as mcurves
from ..model import ec

ID = "C01"
LEVEL = "exploration"
RULE = ("each run = one curve (toy 55%, named 45%), one private scalar from "
        "the structured set, 4-8 signatures; each signature draws entry point "
        "(sign, sign_digest, sign_deterministic, sign_digest_deterministic, "
        "sign_number), hash (standard or synthetic 4-96 bytes), message or "
        "raw digest (incl. all-zero / all-ones), nonce source (explicit k "
        "from the structured set, simulated entropy device under each policy, "
        "shimmed os.urandom, RFC 6979), one of 6 encoders, and 0-3 key reload "
        "generations of the verifying and/or signing key in seeded formats; "
        "non-trivial = >= 1 reload or >= 1 entropy-drawn nonce; distinct = "
        "distinct sha256 of the program")
COMPONENTS_REAL = ["ecdsa.keys SigningKey.sign* / VerifyingKey.verify*",
                   "ecdsa.ecdsa", "ecdsa.util encoders/decoders",
                   "ecdsa.rfc6979", "key serialisers/loaders"]
COMPONENTS_STUB = ["entropy source (SimEntropy)", "key store (harness)",
                   "channel (intact delivery)"]
ASSUMPTIONS = ["cross product curve x hash x encoding x entry point x "
               "boundary scalar is sampled, not enumerated"]
HISTORY_DIFF = {"quick": 120, "thorough": 1000}
SHRINK = [["items"]]
REQUIRED_PROBES = {"quick": ["digest_longer_than_order", "reloaded_vk",
                             "entropy_nonce"],
                   "thorough": ["digest_longer_than_order", "reloaded_vk",
                                "entropy_nonce"]}

ENTRIES = ["sign", "sign_digest", "sign_deterministic",
           "sign_digest_deterministic", "sign_number"]
ENCS = ["string", "strings", "der", "string_canonize", "strings_canonize",
        "der_canonize"]


def budget(tier):
    if tier == "quick":
        return dict(runs=9000, wall=75, chunk=100)
    return dict(runs=300000, wall=840, chunk=500)


def generate(run_seed, tier):
    r = core.rng(run_seed, "ops")
    toy = r.random() < 0.55
    if toy:
        mc = r.choice([c for c in mcurves.toy() if c.h == 1])
    else:
        small = ["SECP112r1", "SECP128r1", "SECP160r1", "NIST192p",
                 "BRAINPOOLP160r1", "NIST224p", "NIST256p", "SECP256k1"]
        mc = mcurves.by_name(r.choice(small * 3 +
                                      [c.name for c in mcurves.named()]))
    n = mc.n
    d = libx.key_scalar(r, n)
    vk_f = formats.vk_formats(mc)
    sk_f = formats.sk_formats(mc)
    items = []
    for _ in range(r.randrange(4, 9)):
        entry = r.choice(ENTRIES)
        it = dict(entry=entry, enc=r.choice(ENCS),
                  hash=libx.pick_hash_name(r, toy))
        if entry in ("sign", "sign_deterministic"):
            it["msg"] = core.hx(r.randbytes(r.choice([0, 1, 5, 32, 100])))
        elif entry == "sign_number":
            it["number"] = r.choice([0, 1, n - 1, n, n + 1, r.randrange(0, n),
                                     r.getrandbits(max(n.bit_length(), 1))])
        else:
            ln = r.choice([1, 2, mc.nlen - 1, mc.nlen, mc.nlen + 1,
                           2 * mc.nlen, 64, r.randrange(1, 70)])
            ln = max(1, ln)
            c = r.randrange(5)
            if c == 0:
                dg = b"\x00" * ln
            elif c == 1:
                dg = b"\xff" * ln
            else:
                dg = r.randbytes(ln)
            it["digest"] = core.hx(dg)
            it["allow_truncate"] = r.random() < 0.7 or ln > mc.nlen
        if entry in ("sign", "sign_digest", "sign_number"):
            src = r.choice(["k", "k", "entropy", "entropy", "urandom"])
            it["nonce"] = src
            if src == "k":
                it["k"] = libx.key_scalar(r, n)
            else:
                it["policy"] = r.choice(["uniform", "uniform", "boundary",
                                         "reject_k", "zeros"])
                it["dseed"] = r.getrandbits(48)
        else:
            it["extra"] = core.hx(r.randbytes(r.choice([0, 0, 8])))
        gens = []
        for _ in range(r.choice([0, 0, 1, 1, 2, 3])):
            if r.random() < 0.7:
                gens.append(["vk", r.choice(vk_f)])
            else:
                gens.append(["sk", r.choice(sk_f)])
        it["reload"] = gens
        it["precompute"] = r.choice(["none", "none", "before", "after",
                                     "lazy"])
        items.append(it)
    return dict(curve=mc.name, d=d, items=items,
                legacy_generator=toy and r.random() < 0.15)


class _OS(object):
    def __init__(self, real, dev):
        self._real = real
        self.urandom = dev

    def __getattr__(self, name):
        return getattr(self._real, name)


def execute(prog):
    core.lib()
    from ecdsa import keys as lk, util as lu
    from ecdsa.ecdsa import RSZeroError
    out = core.new_outcome()
    mc = mcurves.by_name(prog["curve"])
    n = mc.n
    curve, toy = libx.run_curve(
        mc, legacy_generator=bool(prog.get("legacy_generator")))
    d = prog["d"]
    enc_map = {
        "string": (lu.sigencode_string, lu.sigdecode_string),
        "strings": (lu.sigencode_strings, lu.sigdecode_strings),
        "der": (lu.sigencode_der, lu.sigdecode_der),
        "string_canonize": (lu.sigencode_string_canonize, lu.sigdecode_string),
        "strings_canonize": (lu.sigencode_strings_canonize,
                             lu.sigdecode_strings),
        "der_canonize": (lu.sigencode_der_canonize, lu.sigdecode_der),
    }
    real_os = getattr(lu, "os", None)
    rlog = []

    def fail(oracle, site, msg, detail=None):
        raise core.Violation(core.violation(ID, oracle, site, msg, detail))

    with libx.registered(curve, toy):
        try:
            sk = lk.SigningKey.from_secret_exponent(d, curve)
            vk = sk.verifying_key
            for idx, it in enumerate(prog["items"]):
                out["ops"] += 1
                entry = it["entry"]
                hf = libx.hash_by_name(it["hash"])
                se, sd = enc_map[it["enc"]]
                kw = {}
                dev = None
                if it.get("nonce") == "k":
                    kw["k"] = it["k"]
                elif it.get("nonce") in ("entropy", "urandom"):
                    dev = world.SimEntropy(it["policy"],
                                           r=random.Random(it["dseed"]),
                                           order=n)
                    core.bump(out["probes"], "entropy_nonce")
                    core.bump(out["faults"], "entropy_" + it["policy"])
                    out["nontrivial"] = True
                    if it["nonce"] == "entropy":
                        kw["entropy"] = dev
                # ---- reload generations of the signing key before signing
                it = dict(it, reload=[g for g in it["reload"]
                                      if libx.fmt_ok(toy, g[1])])
                for kind, fmt in it["reload"]:
                    if kind == "sk":
                        try:
                            sk = formats.sk_load(lk, formats.sk_dump(sk, fmt),
                                                 fmt, curve, hf)
                        except Exception as e:
                            fail("reload", "sk-%s-%s" % (
                                fmt, type(e).__name__),
                                "reloading the signing key via %s raised %r"
                                % (fmt, e))
                        out["nontrivial"] = True
                        core.bump(out["probes"], "reloaded_sk")
                # ---- sign
                digest = None
                allow = True
                try:
                    if dev is not None and it["nonce"] == "urandom" \
                            and real_os is not None:
                        lu.os = _OS(real_os, dev)
                    try:
                        if entry == "sign":
                            msg = core.unhx(it["msg"])
                            sig = sk.sign(msg, hashfunc=hf, sigencode=se, **kw)
                            digest = hf(msg).digest()
                        elif entry == "sign_deterministic":
                            msg = core.unhx(it["msg"])
                            sig = sk.sign_deterministic(
                                msg, hashfunc=hf, sigencode=se,
                                extra_entropy=core.unhx(it["extra"]))
                            digest = hf(msg).digest()
                        elif entry == "sign_digest":
                            digest = core.unhx(it["digest"])
                            allow = it["allow_truncate"]
                            from .c12 import _as_buffer
                            dflav = ["bytes", "bytes", "bytearray", "mv",
                                     "arrayB", "arrayH", "arrayI", "mvH"][
                                         idx % 8]
                            sig = sk.sign_digest(_as_buffer(digest, dflav),
                                                 sigencode=se,
                                                 allow_truncate=allow, **kw)
                        elif entry == "sign_digest_deterministic":
                            digest = core.unhx(it["digest"])
                            allow = it["allow_truncate"]
                            sig = sk.sign_digest_deterministic(
                                digest, hashfunc=hf, sigencode=se,
                                extra_entropy=core.unhx(it["extra"]),
                                allow_truncate=allow)
                        else:
                            number = it["number"]
                            r_, s_ = sk.sign_number(number, **kw)
                            sig = se(r_, s_, n)
                    finally:
                        if real_os is not None:
                            lu.os = real_os
                except RSZeroError:
                    core.bump(out["probes"], "rs_zero")
                    continue
                except lk.BadDigestError:
                    if digest is not None and not allow and \
                            len(digest) > mc.nlen:
                        core.bump(out["probes"], "bad_digest_documented")
                        continue
                    fail("sign", entry + "-BadDigestError",
                         "BadDigestError outside its documented condition "
                         "(digest %d bytes, order %d bytes, allow_truncate=%r)"
                         % (len(digest or b""), mc.nlen, allow))
                except world.NeedMore:
                    continue
                except AssertionError as e:
                    fail("sign", entry + "-AssertionError",
                         "%s raised AssertionError(%s) for a nonce source "
                         "that is in range" % (entry, e), dict(item=it))
                except Exception as e:
                    fail("sign", "%s-%s" % (entry, type(e).__name__),
                         "%s raised %r" % (entry, e), dict(item=it))
                if digest is not None and len(digest) * 8 > n.bit_length():
                    core.bump(out["probes"], "digest_longer_than_order")
                # ---- restart(s) of the verifier between sign and verify
                vk = sk.verifying_key
                if prog.get("legacy_generator"):
                    # precompute() is not part of the property and needs a
                    # point with a declared order, which keys derived from an
                    # affine base point do not carry
                    it = dict(it, precompute="none")
                if it["precompute"] == "before":
                    vk.precompute()
                for kind, fmt in it["reload"]:
                    if kind == "vk":
                        try:
                            vk = formats.vk_load(lk, formats.vk_dump(vk, fmt),
                                                 fmt, curve, hf)
                        except Exception as e:
                            fail("reload", "vk-%s-%s" % (
                                fmt, type(e).__name__),
                                "reloading the verifying key via %s raised "
                                "%r" % (fmt, e))
                        out["nontrivial"] = True
                        core.bump(out["probes"], "reloaded_vk")
                if it["precompute"] == "after":
                    vk.precompute()
                elif it["precompute"] == "lazy":
                    vk.precompute(lazy=True)
                # ---- verify (intact delivery)
                try:
                    if entry in ("sign", "sign_deterministic"):
                        res = vk.verify(sig, core.unhx(it["msg"]), hashfunc=hf,
                                        sigdecode=sd)
                    elif entry == "sign_number":
                        shift = 8 * mc.nlen - max(n.bit_length(), 1)
                        number = it["number"]
                        if number >> max(n.bit_length(), 1):
                            # cannot be presented as a digest that truncates
                            # back to itself
                            continue
                        dg = (number << shift).to_bytes(mc.nlen, "big")
                        res = vk.verify_digest(sig, dg, sigdecode=sd,
                                               allow_truncate=True)
                    else:
                        res = vk.verify_digest(sig, digest, sigdecode=sd,
                                               allow_truncate=allow)
                except lk.BadSignatureError as e:
                    fail("verifies", entry,
                         "a signature made by %s (%s, hash %s, nonce %s, "
                         "reload %r) was rejected by its own verifying key: "
                         "%s" % (entry, it["enc"], it["hash"],
                                 it.get("nonce", "rfc6979"), it["reload"], e),
                         dict(item=it, d=d))
                except Exception as e:
                    fail("verifies", "%s-%s" % (entry, type(e).__name__),
                         "verify raised %r" % (e,), dict(item=it, d=d))
                rlog.append((entry, _hexsig(sig), repr(res)))
                if res is not True:
                    fail("verifies", entry + "-falsy",
                         "verify returned %r" % (res,), dict(item=it))
        except core.Violation as v:
            out["violation"] = v.v
        finally:
            if real_os is not None:
                lu.os = real_os
    out["steps"] = out["ops"]
    out["digest"] = core.digest_of(prog)
    out["rdigest"] = core.digest_of(rlog)
    return out


def _hexsig(sig):
    if isinstance(sig, (tuple, list)):
        return [bytes(x).hex() for x in sig]
    return bytes(sig).hex()
