"""C02 - verification accepts exactly the signatures the ECDSA equation accepts.

Signer -> faulty channel -> verifier, plus a Byzantine signer that knows d.
The oracle is two-sided and independent: the reference model decodes the
delivered bytes with its own strict decoder and evaluates the FIPS 186-4 rule.
"""
import random

from .. import core, libx, world
from ..model import curves as mcurves
from ..model import der as mder
from ..model import ec

ID = "C02"
LEVEL = "exploration"
# a run stuck inside C code (beyond the reach of a Python signal handler) is
# cut off by a watchdog thread after this many seconds (core._hard_hangs)
RUN_HARD_TIMEOUT = 120
RULE = ("each run = one curve (toy 85%: every (e, r, s) class incl. R = O "
        "and x(R) >= n is hit; named 15%), two keys, 6-12 deliveries of "
        "(signature, message or digest, verifier key, hash, decoder, "
        "allow_truncate): intact, byte-level channel faults, arithmetic "
        "tampering ((r, n-s), 0, n, r+n, ...), misdelivery (other message / "
        "key / hash), replay, Byzantine constructions (r = -e/d so that R is "
        "the identity; seeded (r, s) pairs); non-trivial = >= 1 fault or "
        "Byzantine item; distinct = distinct sha256 of the delivered items")
COMPONENTS_REAL = ["ecdsa.keys VerifyingKey.verify / verify_digest, "
                   "SigningKey.sign*", "ecdsa.ecdsa Public_key.verifies",
                   "ecdsa.util sigdecode_*", "ecdsa.der"]
COMPONENTS_STUB = ["channel (fault injector)", "Byzantine signer (harness, "
                   "knows d)", "oracle: model ECDSA verifier + strict "
                   "signature decoders"]
ASSUMPTIONS = ["model ECDSA verification implements FIPS 186-4 6.4.2",
               "without truncation e is the whole digest as an integer"]
HISTORY_DIFF = {"quick": 120, "thorough": 1000}
SHRINK = [["items"]]
REQUIRED_PROBES = {"quick": ["R_is_infinity", "model_accepts_tampered",
                             "model_rejects", "xR_ge_n"],
                   "thorough": ["R_is_infinity", "model_accepts_tampered",
                                "model_rejects", "xR_ge_n"]}

KINDS = ["intact", "intact", "bytes", "bytes", "bytes", "arith", "arith",
         "other_msg", "other_key", "other_hash", "replay", "byz_inf",
         "byz_pair", "byz_pair", "inplace", "lowlevel"]


def budget(tier):
    if tier == "quick":
        return dict(runs=8000, wall=75, chunk=150)
    return dict(runs=400000, wall=840, chunk=600)


def generate(run_seed, tier):
    r = core.rng(run_seed, "ops")
    toy = r.random() < 0.85
    if toy:
        mc = r.choice([c for c in mcurves.toy() if c.h == 1])
    else:
        mc = mcurves.by_name(r.choice(
            ["SECP112r1", "SECP128r1", "SECP160r1", "NIST192p",
             "BRAINPOOLP160r1", "NIST224p", "NIST256p", "SECP256k1"] * 3
            + ["SECP112r1", "SECP128r1"] * 4
            + [c.name for c in mcurves.named()]))
    n = mc.n
    items = []
    for _ in range(r.randrange(6, 13)):
        kind = r.choice(KINDS)
        it = dict(kind=kind, fmt=r.choice(["string", "strings", "der"]),
                  hash=libx.pick_hash_name(r, toy), fseed=r.getrandbits(32),
                  k=libx.key_scalar(r, n),
                  allow_truncate=r.random() < 0.8,
                  use_digest=r.random() < 0.5,
                  precompute=r.choice(["no", "no", "no", "eager", "lazy"]),
                  burst=r.random() < 0.02)
        if it["use_digest"]:
            ln = max(1, r.choice([1, 2, mc.nlen - 1, mc.nlen, mc.nlen + 1,
                                  2 * mc.nlen, r.randrange(1, 40)]))
            it["digest"] = core.hx(r.randbytes(ln) if r.random() < 0.9
                                   else bytes(ln))
        else:
            it["msg"] = core.hx(r.randbytes(r.choice([0, 1, 7, 40])))
            if kind == "inplace" and r.random() < 0.3:
                # a large message (the stored bytes repeated): 64 KiB and
                # 1 MiB are sizes at which implementations change strategy
                it["msg"] = core.hx(r.randbytes(r.choice([1, 7, 40])))
                it["msg_repeat"] = r.choice([1700, 9400, 66000, 150000])
        if kind == "bytes":
            it["faults"] = [r.choice(world.BYTE_FAULTS)
                            for _ in range(r.choice([1, 1, 2]))]
        if kind == "arith":
            it["arith"] = r.choice(["n-s", "n-s", "r=0", "s=0", "r=n", "s=n",
                                    "r+n", "s+n", "r-1", "s+1", "swap",
                                    "max", "n-r"])
        if kind == "byz_pair":
            it["r"] = r.randrange(0, n + 2)
            it["s"] = r.randrange(0, n + 2)
        if kind == "byz_inf":
            it["s"] = r.randrange(1, n)
        items.append(it)
    return dict(curve=mc.name, d=libx.key_scalar(r, n),
                d2=libx.key_scalar(r, n), items=items,
                legacy_generator=toy and r.random() < 0.12)


def _model_decode(fmt, data, n, L):
    """Strict decoding of delivered signature bytes.  Returns (r, s) or None."""
    if fmt == "string":
        if len(data) != 2 * L:
            return None
        return int.from_bytes(data[:L], "big"), int.from_bytes(data[L:], "big")
    if fmt == "strings":
        if len(data) != 2 or any(len(x) != L for x in data):
            return None
        return int.from_bytes(data[0], "big"), int.from_bytes(data[1], "big")
    try:
        return mder.dec_sig(data)
    except mder.DERError:
        return None


def _encode(fmt, r_, s_, L):
    """The *harness's* encoder (can express out-of-range values)."""
    if fmt == "der":
        return mder.enc_sig(r_, s_)
    if r_ >> (8 * L) or s_ >> (8 * L):
        return None
    a, b = r_.to_bytes(L, "big"), s_.to_bytes(L, "big")
    return a + b if fmt == "string" else [a, b]


def execute(prog):
    core.lib()
    from ecdsa import keys as lk, util as lu
    from ecdsa.ecdsa import RSZeroError
    out = core.new_outcome()
    mc = mcurves.by_name(prog["curve"])
    n = mc.n
    L = mc.nlen
    curve, toy = libx.run_curve(
        mc, legacy_generator=bool(prog.get("legacy_generator")))
    d, d2 = prog["d"], prog["d2"]
    Q = ec.mul(mc, d, mc.G)
    Q2 = ec.mul(mc, d2, mc.G)
    dec = {"string": lu.sigdecode_string, "strings": lu.sigdecode_strings,
           "der": lu.sigdecode_der}
    log = []
    rlog = []
    last = None

    def fail(oracle, site, msg, detail=None):
        raise core.Violation(core.violation(ID, oracle, site, msg, detail))

    try:
        # keys carry a default hash function; deliveries whose hash is that
        # default are sometimes verified without naming it
        dflt_name = prog["items"][0]["hash"] if prog["items"] else "sha1"
        dflt = libx.hash_by_name(dflt_name)
        sk = lk.SigningKey.from_secret_exponent(d, curve, dflt)
        sk2 = lk.SigningKey.from_secret_exponent(d2, curve, dflt)
        # the verifier holds keys it received as bytes (a different object
        # from the signer's: no shared generator / table / scaling state)
        encs_ = ["uncompressed", "hybrid", "raw"] + (
            ["compressed"] if mc.plen > 1 else [])
        vk_rx = lk.VerifyingKey.from_string(
            sk.verifying_key.to_string(encs_[d % len(encs_)]), curve, dflt)
        vk2_rx = lk.VerifyingKey.from_string(
            sk2.verifying_key.to_string(encs_[d2 % len(encs_)]), curve, dflt)
        if (d + d2) % 5 == 0:
            # ... or handed over as a plain affine point object
            from ecdsa import ellipticcurve as le_
            vk_rx = lk.VerifyingKey.from_public_point(
                le_.Point(curve.curve, Q[0], Q[1]), curve, dflt)
        # the verifier re-uses one message buffer
        msg_buf = bytearray(max([256] + [
            len(it_["msg"]) // 2 * it_.get("msg_repeat", 1)
            for it_ in prog["items"] if "msg" in it_]))
        for it in prog["items"]:
            out["ops"] += 1
            kind = it["kind"]
            fmt = it["fmt"]
            rnd = random.Random(it["fseed"])
            if kind == "lowlevel":
                _lowlevel(it, rnd, mc, curve, toy, d, d2, Q, Q2, sk, sk2,
                          vk_rx, out, log, rlog, fail)
                continue
            hf = libx.hash_by_name(it["hash"])
            allow = it["allow_truncate"]
            if it["use_digest"]:
                digest = core.unhx(it["digest"])
                msg = None
            else:
                msg = core.unhx(it["msg"]) * it.get("msg_repeat", 1)
                digest = hf(msg).digest()
                allow = True
            if not allow and len(digest) > L:
                e_sign = None       # signing refuses: BadDigestError
            else:
                e_sign = ec.digest_to_int(digest, n) if allow else \
                    int.from_bytes(digest, "big")
            verifier_Q = Q
            inplace_view = None
            received = it["fseed"] % 2 == 0
            vkey = vk_rx if received else sk.verifying_key
            v_digest = digest
            v_msg = msg
            v_hf = hf
            # ---- what the signer sends
            if kind in ("byz_pair", "byz_inf"):
                out["nontrivial"] = True
                if e_sign is None:
                    continue
                if kind == "byz_inf":
                    # r = -e/d makes u1*G + u2*Q the identity for every s
                    r_ = (-e_sign * ec.inv(d, n)) % n
                    s_ = it["s"]
                    core.bump(out["faults"], "byzantine_R_infinity")
                else:
                    r_, s_ = it["r"], it["s"]
                    if fmt == "der" and it["fseed"] % 11 == 0:
                        # a kilobyte-sized INTEGER (out of range by far)
                        r_ = (1 << (8 * (1800 + it["fseed"] % 2500))) + r_
                        if it["fseed"] % 2:
                            r_, s_ = s_, r_
                    core.bump(out["faults"], "byzantine_pair")
                data = _encode(fmt, r_, s_, L)
                if data is None:
                    continue
            else:
                if e_sign is None:
                    continue
                rs = ec.ecdsa_sign(mc, d, e_sign, it["k"])
                if rs is None:
                    continue
                # the library signer makes the signature (real code), the
                # model cross-checks it
                try:
                    enc = {"string": lu.sigencode_string,
                           "strings": lu.sigencode_strings,
                           "der": lu.sigencode_der}[fmt]
                    if msg is not None:
                        data = sk.sign(msg, hashfunc=hf, sigencode=enc,
                                       k=it["k"])
                    else:
                        data = sk.sign_digest(digest, sigencode=enc,
                                              k=it["k"], allow_truncate=allow)
                except RSZeroError:
                    continue
                data = [bytes(x) for x in data] if fmt == "strings" \
                    else bytes(data)
                if kind == "replay" and last is not None:
                    (data, fmt, v_digest, v_msg, v_hf, allow, verifier_Q,
                     vkey) = last
                    core.bump(out["faults"], "replay")
                    out["nontrivial"] = True
                elif kind == "bytes":
                    if fmt == "strings":
                        from .c12 import _strings_fault
                        for _ in it["faults"]:
                            k2 = rnd.choice(["drop_one", "add_one",
                                             "truncate_r", "extend_s", "swap",
                                             "empty_r", "flip_r", "join"])
                            nd = _strings_fault(rnd, data, k2)
                            if nd != data:
                                core.bump(out["faults"], "strings_" + k2)
                                out["nontrivial"] = True
                            data = nd
                    else:
                        for k_ in it["faults"]:
                            nd, _d = world.apply_fault(rnd, data, k_)
                            if nd != data:
                                core.bump(out["faults"], k_)
                                out["nontrivial"] = True
                            data = nd
                elif kind == "arith":
                    r_, s_ = rs
                    a = it["arith"]
                    r_, s_ = {
                        "n-s": (r_, n - s_), "r=0": (0, s_), "s=0": (r_, 0),
                        "r=n": (n, s_), "s=n": (r_, n), "r+n": (r_ + n, s_),
                        "s+n": (r_, s_ + n), "r-1": (r_ - 1, s_),
                        "s+1": (r_, s_ + 1), "swap": (s_, r_),
                        "max": ((1 << (8 * L)) - 1, s_), "n-r": (n - r_, s_),
                    }[a]
                    if r_ < 0 or s_ < 0:
                        continue
                    nd = _encode(fmt, r_, s_, L)
                    if nd is None:
                        continue
                    data = nd
                    core.bump(out["faults"], "arith_" + a)
                    out["nontrivial"] = True
                elif kind == "inplace" and v_msg is not None \
                        and 0 < len(v_msg) <= len(msg_buf):
                    # the message lives in a buffer the verifier re-uses: it
                    # is verified, then changed in place (same length) and
                    # verified again with the same signature
                    msg_buf[:len(v_msg)] = v_msg
                    view = memoryview(msg_buf)[:len(v_msg)]
                    try:
                        first = vkey.verify(data if fmt != "strings"
                                            else list(data), view,
                                            hashfunc=v_hf, sigdecode=dec[fmt])
                    except lk.BadSignatureError:
                        first = "reject"
                    if first is not True:
                        fail("rejects-valid", "inplace-first",
                             "intact signature over a message held in a "
                             "bytearray view was not accepted: %r" % (first,))
                    msg_buf[0] ^= 0xFF
                    v_msg = bytes(msg_buf[:len(v_msg)])
                    v_digest = hf(v_msg).digest()
                    inplace_view = view
                    core.bump(out["faults"], "message_changed_in_place")
                    out["nontrivial"] = True
                elif kind == "other_msg":
                    if v_msg is not None:
                        v_msg = v_msg + b"\x01"
                        v_digest = hf(v_msg).digest()
                    else:
                        v_digest = bytes([v_digest[0] ^ 1]) + v_digest[1:]
                    core.bump(out["faults"], "misdeliver_message")
                    out["nontrivial"] = True
                elif kind == "other_key":
                    verifier_Q = Q2
                    vkey = vk2_rx if received else sk2.verifying_key
                    core.bump(out["faults"], "misdeliver_key")
                    out["nontrivial"] = True
                elif kind == "other_hash" and v_msg is not None:
                    v_hf = libx.hash_by_name(
                        "synth%d" % rnd.choice([8, 20, 32, 48]))
                    v_digest = v_hf(v_msg).digest()
                    core.bump(out["faults"], "misdeliver_hash")
                    out["nontrivial"] = True
            last = (data, fmt, v_digest, v_msg, v_hf, allow, verifier_Q, vkey)
            log.append((fmt, [x.hex() for x in data] if fmt == "strings"
                        else data.hex(), v_digest.hex()))
            # ---- the model's verdict
            expect_bad_digest = (v_msg is None and not allow
                                 and len(v_digest) > L)
            pair = _model_decode(fmt, data, n, L)
            if v_msg is not None or allow:
                e_v = ec.digest_to_int(v_digest, n)
            else:
                e_v = int.from_bytes(v_digest, "big")
            want = False
            if pair is not None:
                want, rclass = _verify_detail(mc, verifier_Q, e_v, pair[0],
                                              pair[1])
                if rclass:
                    core.bump(out["probes"], rclass)
            if want and kind not in ("intact",):
                core.bump(out["probes"], "model_accepts_tampered")
            if not want:
                core.bump(out["probes"], "model_rejects")
            # ---- the library's verdict
            from .c12 import _as_buffer
            how = ["bytes", "bytes", "bytes", "bytearray", "mv", "arrayB",
                   "arrayH", "mvH", "arrayI", "arrayb", "mvw", "mvb",
                   "mvc"][it["fseed"] % 13]
            if fmt == "strings":
                arg = [_as_buffer(x, how) if how != "mvw"
                       else memoryview(bytearray(x)) for x in data]
                arg = tuple(arg) if rnd.random() < 0.5 else arg
            elif how == "mvw":
                arg = memoryview(bytearray(data))
            else:
                arg = _as_buffer(data, how)
            if it.get("precompute", "no") != "no" and \
                    not prog.get("legacy_generator"):
                # the verifier's table path (both points precomputed)
                vkey.precompute(lazy=(it["precompute"] == "lazy"))
            try:
                if it.get("burst"):
                    # the same delivery many times over on one key object
                    for _ in range(150):
                        try:
                            if v_msg is not None:
                                vkey.verify(arg, v_msg, hashfunc=v_hf,
                                            sigdecode=dec[fmt])
                            else:
                                vkey.verify_digest(arg, v_digest,
                                                   sigdecode=dec[fmt],
                                                   allow_truncate=allow)
                        except (lk.BadSignatureError, lk.BadDigestError):
                            pass
                if inplace_view is not None:
                    res = vkey.verify(arg, inplace_view, hashfunc=v_hf,
                                      sigdecode=dec[fmt])
                elif v_msg is not None and v_hf is dflt \
                        and it["fseed"] % 3 == 0:
                    res = vkey.verify(arg, v_msg, sigdecode=dec[fmt])
                elif v_msg is not None:
                    res = vkey.verify(arg, v_msg, hashfunc=v_hf,
                                      sigdecode=dec[fmt])
                else:
                    res = vkey.verify_digest(arg, v_digest,
                                             sigdecode=dec[fmt],
                                             allow_truncate=allow)
                got = "accept" if res is True else "falsy:%r" % (res,)
            except lk.BadSignatureError:
                got = "reject"
            except lk.BadDigestError:
                got = "baddigest"
            except Exception as ex:
                fail("exception", "%s-%s" % (fmt, type(ex).__name__),
                     "verify raised %s(%s) for %s signature %r (kind %s)" % (
                         type(ex).__name__, ex, fmt, _show(data), kind),
                     dict(item=it, delivered=_show(data)))
            rlog.append((fmt, _show(data), got))
            if expect_bad_digest:
                if got != "baddigest":
                    fail("baddigest", "missing",
                         "digest of %d bytes with truncation disabled on a "
                         "%d-byte order: expected BadDigestError, got %s" % (
                             len(v_digest), L, got))
                continue
            if got == "baddigest":
                fail("baddigest", "spurious", "BadDigestError outside its "
                     "documented condition (digest %d bytes, order %d bytes, "
                     "allow_truncate=%r)" % (len(v_digest), L, allow))
            if got.startswith("falsy"):
                fail("falsy", fmt, "verify returned %s instead of raising" % got)
            if want and got != "accept":
                fail("rejects-valid", kind,
                     "the ECDSA rule accepts (r, s)=%r for e=%d under Q=%r "
                     "but the library raised BadSignatureError (kind %s, %s)"
                     % (pair, e_v, verifier_Q, kind, fmt),
                     dict(item=it, delivered=_show(data)))
            if not want and got != "reject":
                fail("accepts-invalid", kind,
                     "the library accepted %s signature %r (decoded %r) for "
                     "e=%d under Q=%r; the ECDSA rule rejects it (kind %s)"
                     % (fmt, _show(data), pair, e_v, verifier_Q, kind),
                     dict(item=it, delivered=_show(data)))
    except core.Violation as v:
        out["violation"] = v.v
    out["steps"] = out["ops"]
    out["digest"] = core.digest_of(log)
    out["rdigest"] = core.digest_of(rlog)
    return out


def _lowlevel(it, rnd, mc, curve, toy, d, d2, Q, Q2, sk, sk2, vk_rx, out,
              log, rlog, fail):
    """The rule itself, `ecdsa.ecdsa.Public_key.verifies(e, Signature)`, driven
    directly: one `Signature` *object* is checked several times - under a key
    on another curve, under another key of this curve, with another digest,
    and under the right key - and every answer must be the boolean the model
    gives for that (key, e, r, s).  The signature object is a value: what it
    was checked against before must not matter."""
    from ecdsa import ecdsa as lecd, keys as lk
    n = mc.n
    if toy:
        others = [c for c in mcurves.toy() if c.h == 1 and c.n != n]
    else:
        others = [c for c in mcurves.named()
                  if c.n != n and c.p < (1 << 200)]
    mo = others[it["fseed"] % len(others)]
    co, _t = libx.run_curve(mo)
    do = d % mo.n or 1
    Qo = ec.mul(mo, do, mo.G)
    sko = lk.SigningKey.from_secret_exponent(do, co)
    e = rnd.choice([rnd.getrandbits(n.bit_length()), rnd.randrange(n),
                    rnd.getrandbits(n.bit_length() + 9), 0, n, 1])
    rs = ec.ecdsa_sign(mc, d, e, it["k"])
    mode = rnd.choice(["valid", "valid", "valid", "n-s", "s+1", "r+1",
                       "pair", "small"])
    if rs is None or mode == "pair":
        rs = (rnd.randrange(0, n + 2), rnd.randrange(0, n + 2))
    elif mode == "n-s":
        rs = (rs[0], n - rs[1])
    elif mode == "s+1":
        rs = (rs[0], rs[1] + 1)
    elif mode == "r+1":
        rs = (rs[0] + 1, rs[1])
    elif mode == "small":
        # a pair that is in range for both curves
        m_ = min(n, mo.n)
        rs = (rs[0] % m_ or 1, rs[1] % m_ or 1)
    r_, s_ = rs
    sig = lecd.Signature(r_, s_)
    stations = {
        "other_curve": (mo, Qo, sko.verifying_key.pubkey, e),
        "other_key": (mc, Q2, sk2.verifying_key.pubkey, e),
        "other_digest": (mc, Q, sk.verifying_key.pubkey, e + 1),
        "right": (mc, Q, sk.verifying_key.pubkey, e),
        "right_rx": (mc, Q, vk_rx.pubkey, e),
    }
    route = [rnd.choice(["other_curve", "other_curve", "other_key",
                         "other_digest", "right"])
             for _ in range(rnd.randrange(0, 3))] + \
        [rnd.choice(["right", "right", "right_rx", "other_key"])]
    if rnd.random() < 0.3:
        route.append(rnd.choice(sorted(stations)))
    core.bump(out["faults"], "lowlevel_signature_object_reused")
    out["nontrivial"] = True
    for st in route:
        mcx, Qx, pub, ex = stations[st]
        want, rclass = _verify_detail(mcx, Qx, ex, r_, s_)
        if rclass:
            core.bump(out["probes"], rclass)
        try:
            got = pub.verifies(ex, sig)
        except Exception as ex_:
            fail("exception", "lowlevel-%s" % type(ex_).__name__,
                 "Public_key.verifies raised %s(%s) for (r, s)=%r, e=%d at "
                 "station %s of route %r" % (type(ex_).__name__, ex_, rs, ex,
                                             st, route))
        log.append(("ll", st, r_, s_, ex))
        rlog.append(("ll", st, repr(got)))
        if got is not True and got is not False:
            fail("falsy", "lowlevel", "Public_key.verifies returned %r, not "
                 "a boolean" % (got,))
        if got != want:
            fail("rejects-valid" if want else "accepts-invalid", "lowlevel",
                 "Public_key.verifies(e=%d, Signature(r=%d, s=%d)) under "
                 "Q=%r on %s returned %r, the ECDSA rule says %r (station %s "
                 "of route %r on one Signature object)" % (
                     ex, r_, s_, Qx, mcx.name, got, want, st, route))
        if (int(sig.r), int(sig.s)) != (r_, s_):
            fail("argument-changed", "lowlevel", "the Signature object "
                 "changed from %r to %r" % (rs, (sig.r, sig.s)))


def _verify_detail(mc, Q, e, r_, s_):
    """FIPS 186-4 6.4.2 with the model's arithmetic, plus the class of R
    (reach probes)."""
    n = mc.n
    if not (1 <= r_ <= n - 1 and 1 <= s_ <= n - 1):
        return False, None
    w = ec.inv(s_, n)
    R = ec.add(mc, ec.mul(mc, e * w % n, mc.G), ec.mul(mc, r_ * w % n, Q))
    if R is ec.O:
        return False, "R_is_infinity"
    return R[0] % n == r_, ("xR_ge_n" if R[0] >= n else None)


def _show(d):
    if isinstance(d, (list, tuple)):
        return [bytes(x).hex() for x in d]
    return bytes(d).hex()
