"""C05 - ECDH: both parties derive the same, standard shared secret or get an
error.

Two ECDH nodes and a channel.  The program is a seeded history of the public
calls on each node in any order (set_curve, generate / load private key in
every form, load received public key in every form, generate shared secret),
with the remote public key travelling through a faulty channel or coming from
a Byzantine peer.  A small model of each node's state predicts every outcome.
"""
import random

from .. import core, formats, libx, world
from ..model import curves as mcurves
from ..model import der as mder
from ..model import ec

ID = "C05"
LEVEL = "exploration"
RULE = ("each run = an agreed curve and a second curve, two nodes, 8-24 "
        "calls in seeded order (set_curve, generate_private_key, "
        "load_private_key{,_bytes,_der,_pem}, get_public_key, "
        "load_received_public_key{,_bytes,_der,_pem}, "
        "generate_sharedsecret{,_bytes}); remote keys delivered intact, "
        "channel-damaged, for the wrong curve, or forged by a Byzantine peer "
        "(invalid / small-subgroup / low-order points); non-trivial = >= 1 "
        "fault, forged key or refused call; distinct = distinct sha256 of the "
        "call/outcome log")
COMPONENTS_REAL = ["ecdsa.ecdh.ECDH", "ecdsa.keys loaders / generate",
                   "ecdsa.ellipticcurve multiplication"]
COMPONENTS_STUB = ["channel between the two parties (fault injector)",
                   "Byzantine peer (harness)", "entropy (os.urandom shim)",
                   "oracle: per-node state model + model ECDH x(d*Q)"]
ASSUMPTIONS = ["model ECDH = x-coordinate of d*Q, big-endian, padded to the "
               "byte length of p", "not judged (property silent): "
               "byte-loading a public key while no curve is set; "
               "get_public_key before a private key is loaded"]
HISTORY_DIFF = {"quick": 120, "thorough": 1000}
SHRINK = [["ops"]]
REQUIRED_PROBES = {"quick": ["secret_leading_zero", "both_agree",
                             "invalid_curve", "no_key", "infinity_secret",
                             "remote_rejected"],
                   "thorough": ["secret_leading_zero", "both_agree",
                                "invalid_curve", "no_key", "infinity_secret",
                                "remote_rejected"]}

OPS = ["set_curve", "generate", "generate", "load_priv_obj",
       "load_priv_bytes", "load_priv_der", "load_priv_pem", "get_public",
       "send_pub", "send_pub", "send_pub", "send_pub", "secret", "secret",
       "secret_bytes", "byz_pub", "byz_pub", "exchange", "low_order_case",
       "alias_case"]


def budget(tier):
    if tier == "quick":
        return dict(runs=12000, wall=75, chunk=150)
    return dict(runs=400000, wall=840, chunk=600)


def generate(run_seed, tier):
    r = core.rng(run_seed, "ops")
    toy = r.random() < 0.6
    bname = None
    if toy:
        toys = [c for c in mcurves.toy() if c.h in (1, 3)]
        a = r.choice(toys + [c for c in toys if c.h == 3] * 3)
        b = r.choice([c for c in toys if c.name != a.name])
        if r.random() < 0.12:
            # curve B is curve A with another base point (k*G): same field,
            # equation and order, yet another curve as far as keys go
            bname = "regen:%s:%d" % (a.name, r.choice([2, 2, 3, 5]))
            b = a
    else:
        named = ["SECP112r1", "SECP112r2", "SECP128r1", "SECP160r1",
                 "NIST192p", "BRAINPOOLP160r1", "NIST224p", "NIST256p"]
        a = mcurves.by_name(r.choice(named * 2 +
                                     [c.name for c in mcurves.named()]))
        b = mcurves.by_name(r.choice([n_ for n_ in named if n_ != a.name]))
    ops = []
    # constructor variants
    init = [r.choice(["none", "A", "A", "A", "B"]) for _ in range(2)]
    for _ in range(r.randrange(8, 25)):
        name = r.choice(OPS)
        op = dict(op=name, node=r.randrange(2), fseed=r.getrandbits(32))
        op["cv"] = r.choice(["A", "A", "A", "A", "A", "B"])
        if name == "low_order_case":
            op["m"] = r.randrange(1, 40)
            op["odd"] = r.random() < 0.3
        if name == "alias_case":
            op["dA"] = libx.key_scalar(r, a.n)
            op["dB"] = libx.key_scalar(r, a.n)
            op["side"] = r.choice(["priv", "priv", "pub", "both"])
            op["preset"] = r.random() < 0.7
        if name == "set_curve":
            op["cv"] = r.choice(["A", "A", "B", "none"])
        if name.startswith("load_priv"):
            op["d"] = libx.key_scalar(r, (a if op["cv"] == "A" else b).n)
            op["fmt"] = r.choice(["ssleay", "pkcs8"])
            op["enc"] = r.choice(["uncompressed", "hybrid"])
        if name == "send_pub":
            op["how"] = r.choice(["obj", "bytes", "bytes", "der", "pem"])
            op["enc"] = r.choice(["raw", "uncompressed", "compressed",
                                  "hybrid"])
            op["src"] = r.choice(["peer", "peer", "peer", "fresh"])
            op["d"] = libx.key_scalar(r, (a if op["cv"] == "A" else b).n)
            op["faults"] = [r.choice(world.BYTE_FAULTS)] \
                if r.random() < 0.25 else []
        if name == "byz_pub":
            op["how"] = r.choice(["obj_novalidate", "bytes", "der"])
            op["byz"] = r.choice(["low_order", "low_order", "offcurve",
                                  "subgroup", "alias"])
            op["enc"] = r.choice(["raw", "uncompressed", "hybrid",
                                  "compressed"])
        if name == "exchange":
            op["dA"] = libx.key_scalar(r, a.n)
            op["dB"] = libx.key_scalar(r, a.n)
            op["how"] = r.choice(["obj", "bytes", "der", "pem"])
            op["enc"] = r.choice(["uncompressed", "compressed", "hybrid"])
        ops.append(op)
    if r.random() < 0.35:
        # one object used for two complete exchanges in a row, possibly on
        # curves of different sizes
        node = r.randrange(2)
        macro = []
        for cv in r.choice([["A", "B"], ["B", "A"], ["A", "A"]]):
            cmc = a if cv == "A" else b
            macro.append(dict(op="set_curve", node=node, cv=cv,
                              fseed=r.getrandbits(32)))
            macro.append(dict(op="load_priv_obj", node=node, cv=cv,
                              d=libx.key_scalar(r, cmc.n), fmt="ssleay",
                              enc="uncompressed", fseed=r.getrandbits(32)))
            macro.append(dict(op="send_pub", node=node, cv=cv,
                              how=r.choice(["obj", "bytes", "der"]),
                              enc=r.choice(["uncompressed", "hybrid"]),
                              src="fresh", d=libx.key_scalar(r, cmc.n),
                              faults=[], fseed=r.getrandbits(32)))
            macro.append(dict(op=r.choice(["secret_bytes", "secret_bytes",
                                           "secret"]), node=node, cv=cv,
                              fseed=r.getrandbits(32)))
        pos = r.randrange(len(ops) + 1)
        ops[pos:pos] = macro
    return dict(A=a.name, B=bname or b.name, init=init, ops=ops)


class _OS(object):
    def __init__(self, real, dev):
        self._real = real
        self.urandom = dev

    def __getattr__(self, name):
        return getattr(self._real, name)


class Node(object):
    """Model of one ECDH object's state."""

    def __init__(self):
        self.curve = None       # "A" / "B" / None
        self.priv = None        # (curve tag, d)
        self.pub = None         # (curve tag, point)


def execute(prog):
    core.lib()
    from ecdsa import keys as lk, ecdh as lecdh, der as lder, curves as lc
    from ecdsa import util as lu, ellipticcurve as le
    out = core.new_outcome()
    mcs = {"A": mcurves.by_name(prog["A"]), "B": _curve_spec(prog["B"])}
    curves = {}
    toys = []
    for tag in ("A", "B"):
        c, toy = libx.run_curve(mcs[tag])
        curves[tag] = c
        if toy:
            toys.append(c)
    curves["none"] = None
    log = []
    real_os = getattr(lu, "os", None)
    dev = world.SimEntropy("uniform", r=random.Random(
        prog["ops"][0]["fseed"] if prog["ops"] else 1))
    if real_os is not None:
        lu.os = _OS(real_os, dev)

    def fail(oracle, site, msg, detail=None):
        raise core.Violation(core.violation(ID, oracle, site, msg, detail))

    def tag_of(cobj):
        for t in ("A", "B"):
            if cobj is curves[t]:
                return t
        return None if cobj is None else "?"

    for c in toys:
        lc.curves.append(c)
    rxbufs = {}
    try:
        nodes = []
        models = []
        for i in range(2):
            t = prog["init"][i]
            nodes.append(lecdh.ECDH(curve=curves[t] if t != "none" else None))
            m = Node()
            m.curve = t if t != "none" else None
            models.append(m)
        KEYDOC = (lk.MalformedPointError, lder.UnexpectedDER,
                  lc.UnknownCurveError)

        def check_state(i, where):
            eo, m = nodes[i], models[i]
            if tag_of(eo.curve) != m.curve:
                fail("state", "curve", "after %s node %d works on curve %s, "
                     "the model says %s" % (where, i, tag_of(eo.curve),
                                            m.curve))
            if (eo.private_key is None) != (m.priv is None):
                fail("state", "private-key-presence",
                     "after %s node %d %s a private key, the model says "
                     "otherwise" % (where, i, "has" if eo.private_key
                                    else "has no"))
            if m.priv is not None:
                d_ = int(eo.private_key.privkey.secret_multiplier)
                if d_ != m.priv[1] or tag_of(eo.private_key.curve) != m.priv[0]:
                    fail("state", "private-key", "after %s node %d holds "
                         "private key (%s, %d), model (%s, %d)" % (
                             where, i, tag_of(eo.private_key.curve), d_,
                             m.priv[0], m.priv[1]))
            if (eo.public_key is None) != (m.pub is None):
                fail("state", "remote-key-presence",
                     "after %s node %d %s a remote key, the model says "
                     "otherwise" % (where, i, "has" if eo.public_key
                                    else "has no"))
            if m.pub is not None:
                pt = eo.public_key.pubkey.point
                got = (int(pt.x()), int(pt.y()))
                if got != tuple(m.pub[1]) or \
                        tag_of(eo.public_key.curve) != m.pub[0]:
                    fail("state", "remote-key", "after %s node %d holds "
                         "remote point %r on %s, model %r on %s" % (
                             where, i, got, tag_of(eo.public_key.curve),
                             m.pub[1], m.pub[0]))

        def expect(i, name, fn, want_exc, on_ok):
            """Run a call; `want_exc` is None (must succeed) or a tuple of
            acceptable exception classes (must raise one of them)."""
            try:
                res = fn()
            except Exception as ex:
                log.append((i, name, type(ex).__name__))
                if want_exc and isinstance(ex, want_exc):
                    out["nontrivial"] = True
                    return ("exc", ex)
                fail("outcome", "%s-%s" % (name, type(ex).__name__),
                     "node %d %s raised %s(%s); the model expects %s" % (
                         i, name, type(ex).__name__, ex,
                         "success" if not want_exc else
                         "/".join(c.__name__ for c in want_exc)))
            log.append((i, name, "ok", repr(res)[:80] if isinstance(
                res, (int, bytes)) else ""))
            if want_exc:
                fail("outcome", name + "-not-refused",
                     "node %d %s succeeded; the model expects %s" % (
                         i, name, "/".join(c.__name__ for c in want_exc)))
            on_ok(res)
            return ("ok", res)

        def load_priv_model(m, ktag, d):
            """Model of load_private_key(SigningKey on curve ktag)."""
            if m.curve is None:
                m.curve = ktag
            if m.curve != ktag:
                return (lecdh.InvalidCurveError,)
            m.priv = (ktag, d)
            return None

        def load_pub_model(m, ktag, P):
            if m.curve is None:
                m.curve = ktag
            if m.curve != ktag:
                return (lecdh.InvalidCurveError,)
            m.pub = (ktag, P)
            return None

        def secret_model(m):
            if m.priv is None or m.pub is None:
                core.bump(out["probes"], "no_key")
                return (lecdh.NoKeyError,), None
            if not (m.priv[0] == m.curve == m.pub[0]):
                core.bump(out["probes"], "invalid_curve")
                return (lecdh.InvalidCurveError,), None
            mc = mcs[m.curve]
            x = ec.ecdh(mc, m.priv[1], m.pub[1])
            if x is None:
                core.bump(out["probes"], "infinity_secret")
                return (lecdh.InvalidSharedSecretError,), None
            return None, x

        for op in prog["ops"]:
            out["ops"] += 1
            i = op["node"]
            eo, m = nodes[i], models[i]
            name = op["op"]
            if toys and not libx.toy_der_ok():
                # DER/PEM loading of user-defined curves is not available
                if name in ("load_priv_der", "load_priv_pem"):
                    name = "load_priv_obj"
                if op.get("how") in ("der", "pem"):
                    op = dict(op, how="bytes" if name != "exchange"
                              else "obj")
            rnd = random.Random(op["fseed"])
            cv = op["cv"]
            mc = mcs[cv] if cv in mcs else None
            if name == "set_curve":
                eo.set_curve(curves[cv])
                m.curve = cv if cv != "none" else None
                log.append((i, name, cv))
            elif name == "generate":
                if m.curve is None:
                    expect(i, name, eo.generate_private_key,
                           (lecdh.NoCurveError,), None)
                else:
                    def ok_gen(res):
                        d_ = int(eo.private_key.privkey.secret_multiplier)
                        n_ = mcs[m.curve].n
                        if not 1 <= d_ < n_:
                            fail("outcome", "generate-range",
                                 "generated private scalar %d out of range"
                                 % d_)
                        m.priv = (m.curve, d_)
                    expect(i, name, eo.generate_private_key, None, ok_gen)
            elif name.startswith("load_priv"):
                d = op["d"] % mc.n or 1
                sk = lk.SigningKey.from_secret_exponent(d, curves[cv])
                if name == "load_priv_obj":
                    saved = (m.curve, m.priv)
                    want = load_priv_model(m, cv, d)
                    if want:
                        m.priv = saved[1]
                    snap = _key_snapshot(sk)
                    expect(i, name, lambda: eo.load_private_key(sk), want,
                           lambda r_: None)
                    if _key_snapshot(sk) != snap:
                        fail("argument-changed", "private-key",
                             "load_private_key altered the caller's key "
                             "object")
                elif name == "load_priv_bytes":
                    if m.curve is None:
                        expect(i, name, lambda: eo.load_private_key_bytes(
                            sk.to_string()), (lecdh.NoCurveError,), None)
                    else:
                        raw = bytes(sk.to_string())
                        tgt = mcs[m.curve]
                        if len(raw) != tgt.nlen:
                            want = (lk.MalformedPointError,)
                        else:
                            dv = int.from_bytes(raw, "big")
                            if not 1 <= dv < tgt.n:
                                want = (lk.MalformedPointError,)
                            else:
                                want = None
                                m.priv = (m.curve, dv)
                        expect(i, name,
                               lambda: eo.load_private_key_bytes(raw), want,
                               lambda r_: None)
                else:
                    pem = name.endswith("pem")
                    data = sk.to_pem(op["enc"], op["fmt"]) if pem else \
                        sk.to_der(op["enc"], op["fmt"])
                    saved = m.priv
                    want = load_priv_model(m, cv, d)
                    if want:
                        m.priv = saved
                    fn = (lambda: eo.load_private_key_pem(data)) if pem else \
                        (lambda: eo.load_private_key_der(data))
                    expect(i, name, fn, want, lambda r_: None)
            elif name == "get_public":
                if m.priv is None:
                    continue        # property silent
                def ok_pub(vk):
                    P = ec.mul(mcs[m.priv[0]], m.priv[1], mcs[m.priv[0]].G)
                    got = (int(vk.pubkey.point.x()), int(vk.pubkey.point.y()))
                    if got != P:
                        fail("outcome", "get_public_key",
                             "public key %r is not d*G = %r" % (got, P))
                expect(i, name, eo.get_public_key, None, ok_pub)
            elif name == "send_pub":
                peer = models[1 - i]
                if op["src"] == "peer" and peer.priv is not None:
                    ktag, d = peer.priv
                else:
                    ktag, d = cv, op["d"] % mc.n or 1
                kmc = mcs[ktag]
                P = ec.mul(kmc, d, kmc.G)
                vk = lk.SigningKey.from_secret_exponent(
                    d, curves[ktag]).verifying_key
                how = op["how"]
                enc = op["enc"]
                if kmc.plen == 1 and enc == "compressed":
                    enc = "hybrid"
                if how == "obj":
                    saved = m.pub
                    want = load_pub_model(m, ktag, P)
                    if want:
                        m.pub = saved
                    snap = _key_snapshot(vk)
                    expect(i, "send_pub_obj",
                           lambda: eo.load_received_public_key(vk), want,
                           lambda r_: None)
                    if _key_snapshot(vk) != snap:
                        fail("argument-changed", "public-key",
                             "load_received_public_key altered the caller's "
                             "key object")
                else:
                    if how == "bytes":
                        if m.curve is None:
                            continue    # precondition not judged
                        data = bytes(vk.to_string(enc))
                    else:
                        e2 = enc if enc != "raw" else "uncompressed"
                        data = bytes(vk.to_der(e2))
                    for k_ in op["faults"]:
                        nd, _d = world.apply_fault(rnd, data, k_)
                        if nd != data:
                            core.bump(out["faults"], k_)
                            out["nontrivial"] = True
                        data = nd
                    # the model's verdict on the delivered bytes
                    saved = m.pub
                    if how == "bytes":
                        tgt = mcs[m.curve]
                        st, val = ec.decode_point(tgt, data)
                        if st == "ok":
                            want = load_pub_model(m, m.curve, val)
                        else:
                            want = (lk.MalformedPointError,)
                            core.bump(out["probes"], "remote_rejected")
                    else:
                        try:
                            oid, pb = mder.parse_spki(data)
                            c2 = None
                            for t in ("A", "B"):
                                if tuple(oid) == mcs[t].oid:
                                    c2 = t
                            if c2 is None:
                                want = KEYDOC
                                if mcurves.by_oid(oid) is not None:
                                    want = None     # a third, known curve
                                    raise _Skip()
                            else:
                                st, val = ec.decode_point(mcs[c2], pb,
                                                          allow_raw=False)
                                if st == "ok":
                                    want = load_pub_model(m, c2, val)
                                else:
                                    want = KEYDOC
                                    core.bump(out["probes"], "remote_rejected")
                        except mder.DERError:
                            want = KEYDOC
                            core.bump(out["probes"], "remote_rejected")
                        except _Skip:
                            continue
                    if want:
                        m.pub = saved
                    _preload(lk, eo, data, how, rnd, out)
                    rx = _rxbuf(rxbufs, i, data, rnd, out)
                    if how == "bytes":
                        fn = lambda: eo.load_received_public_key_bytes(rx)  # noqa
                    elif how == "der":
                        fn = lambda: eo.load_received_public_key_der(rx)  # noqa
                    else:
                        pemd = mder.pem(data, "PUBLIC KEY")
                        fn = lambda: eo.load_received_public_key_pem(pemd)  # noqa
                    expect(i, "send_pub_" + how, fn, want, lambda r_: None)
            elif name == "byz_pub":
                if m.curve is None:
                    continue
                tgt = mcs[m.curve]
                core.bump(out["faults"], "byz_" + op["byz"])
                out["nontrivial"] = True
                P = _byz_point(tgt, op["byz"], rnd)
                if P is None:
                    continue
                how = op["how"]
                why = ec.validate_point(tgt, P) if isinstance(P, tuple) \
                    else "range"
                if how == "obj_novalidate":
                    # the caller switched validation off: the point is used
                    # as is; only d*Q = O must still be refused
                    if why in ("range", "off-curve") or P[1] == 0:
                        continue
                    pj = le.PointJacobi(curves[m.curve].curve, P[0], P[1], 1)
                    vk = lk.VerifyingKey.from_public_point(
                        pj, curves[m.curve], validate_point=False)
                    saved = m.pub
                    want = load_pub_model(m, m.curve, P)
                    if want:
                        m.pub = saved
                    expect(i, "byz_pub_obj",
                           lambda: eo.load_received_public_key(vk), want,
                           lambda r_: None)
                else:
                    enc = op["enc"]
                    data = _enc_any(tgt, P, enc)
                    if data is None:
                        continue
                    if how == "der":
                        if enc == "raw":
                            data = _enc_any(tgt, P, "uncompressed")
                        data = mder.spki(tgt.oid, data)
                    if enc == "compressed" and tgt.plen > 1:
                        # what the compressed form denotes is decided by the
                        # model's decoder (x must be in range and a residue)
                        st, val = ec.decode_point(tgt, _enc_any(tgt, P, enc))
                        why = None if st == "ok" else val
                        if st == "ok":
                            P = val
                    saved = m.pub
                    if why is None:
                        want = load_pub_model(m, m.curve, P)
                        if want:
                            m.pub = saved
                    else:
                        want = (lk.MalformedPointError,)
                        core.bump(out["probes"], "remote_rejected")
                    _preload(lk, eo, data, how, rnd, out)
                    rx = _rxbuf(rxbufs, i, data, rnd, out)
                    fn = (lambda: eo.load_received_public_key_bytes(rx)) \
                        if how == "bytes" else \
                        (lambda: eo.load_received_public_key_der(rx))
                    expect(i, "byz_pub_" + how, fn, want, lambda r_: None)
            elif name in ("secret", "secret_bytes"):
                want, x = secret_model(m)

                def ok_secret(res):
                    tgt = mcs[m.curve]
                    if name == "secret":
                        if int(res) != x:
                            fail("secret", "value", "shared secret %d, the "
                                 "model's x(d*Q) is %d" % (int(res), x))
                    else:
                        wantb = x.to_bytes(tgt.plen, "big")
                        if bytes(res) != wantb:
                            fail("secret", "bytes", "shared secret bytes %s, "
                                 "want %s (x padded to %d bytes)" % (
                                     bytes(res).hex(), wantb.hex(), tgt.plen))
                        if wantb[0] == 0:
                            core.bump(out["probes"], "secret_leading_zero")
                fn = eo.generate_sharedsecret if name == "secret" else \
                    eo.generate_sharedsecret_bytes
                expect(i, name, fn, want, ok_secret)
            elif name == "low_order_case":
                # a peer sends (as an object, validation switched off by the
                # caller) a point of small odd order q; with q | d the result
                # is the point at infinity and must be refused
                mcA = mcs["A"]
                if mcA.h == 1 or mcA.p >= (1 << 24):
                    continue
                low = [(P, ec.point_order(mcA, P)) for P in _pts(mcA)
                       if P[1] != 0]
                low = [(P, q) for P, q in low if q % 2 == 1 and q <= mcA.h]
                if not low:
                    continue
                P, q = low[op["m"] % len(low)]
                d = (op["m"] * q) % mcA.n or q
                if op["odd"]:
                    d = d + 1 if (d + 1) % q else d + 2
                    d %= mcA.n
                    if d == 0:
                        continue
                cA = curves["A"]
                e1 = lecdh.ECDH(curve=cA)
                e1.load_private_key(lk.SigningKey.from_secret_exponent(d, cA))
                pj = le.PointJacobi(cA.curve, P[0], P[1], 1)
                e1.load_received_public_key(
                    lk.VerifyingKey.from_public_point(pj, cA,
                                                      validate_point=False))
                x = ec.ecdh(mcA, d, P)
                out["nontrivial"] = True
                core.bump(out["faults"], "byz_low_order_object")
                try:
                    got = ("ok", int(e1.generate_sharedsecret()))
                except lecdh.InvalidSharedSecretError:
                    got = ("inf", None)
                except Exception as ex:
                    fail("low-order", type(ex).__name__,
                         "generate_sharedsecret raised %r" % (ex,))
                if x is None:
                    core.bump(out["probes"], "infinity_secret")
                    if got[0] != "inf":
                        fail("low-order", "infinity-returned",
                             "d=%d times a point of order %d is the point at "
                             "infinity, yet a secret (%r) was returned" % (
                                 d, q, got[1]))
                elif got != ("ok", x):
                    fail("low-order", "value", "d=%d, point of order %d: got "
                         "%r, model x(d*Q) = %d" % (d, q, got, x))
                log.append(("low", d, q))
                continue
            elif name == "alias_case":
                _alias_case(op, mcs["A"], curves["A"], lk, lecdh, out, log,
                            fail)
                continue
            elif name == "exchange":
                # a complete, intact exchange on the agreed curve between two
                # fresh objects: both sides equal x(dA*dB*G)
                mcA = mcs["A"]
                cA = curves["A"]
                dA, dB = op["dA"] % mcA.n or 1, op["dB"] % mcA.n or 1
                e1 = lecdh.ECDH(curve=cA)
                e2 = lecdh.ECDH(curve=cA)
                v1 = e1.load_private_key(
                    lk.SigningKey.from_secret_exponent(dA, cA))
                v2 = e2.load_private_key_bytes(dB.to_bytes(mcA.nlen, "big"))
                enc = op["enc"]
                if mcA.plen == 1 and enc == "compressed":
                    enc = "hybrid"
                how = op["how"]
                try:
                    if how == "obj":
                        e1.load_received_public_key(v2)
                        e2.load_received_public_key(v1)
                    elif how == "bytes":
                        e1.load_received_public_key_bytes(v2.to_string(enc))
                        e2.load_received_public_key_bytes(v1.to_string(enc))
                    elif how == "der":
                        e1.load_received_public_key_der(v2.to_der(enc))
                        e2.load_received_public_key_der(v1.to_der(enc))
                    else:
                        e1.load_received_public_key_pem(v2.to_pem(enc))
                        e2.load_received_public_key_pem(v1.to_pem(enc))
                    s1 = e1.generate_sharedsecret_bytes()
                    s2 = e2.generate_sharedsecret_bytes()
                    i1 = e1.generate_sharedsecret()
                except lecdh.InvalidSharedSecretError:
                    if ec.mul(mcA, dA * dB, mcA.G) is ec.O:
                        continue
                    raise
                except Exception as ex:
                    fail("exchange", type(ex).__name__,
                         "an intact exchange (%s/%s) raised %r" % (how, enc,
                                                                   ex))
                S = ec.mul(mcA, dA * dB % mcA.n, mcA.G)
                wantb = S[0].to_bytes(mcA.plen, "big")
                core.bump(out["probes"], "both_agree")
                if wantb[0] == 0:
                    core.bump(out["probes"], "secret_leading_zero")
                if bytes(s1) != bytes(s2) or bytes(s1) != wantb or \
                        int(i1) != S[0]:
                    fail("exchange", "secret",
                         "dA=%d dB=%d: A derived %s, B derived %s, "
                         "x(dA*dB*G) = %s" % (dA, dB, bytes(s1).hex(),
                                              bytes(s2).hex(), wantb.hex()))
                log.append(("x", how, enc))
            check_state(i, name)
    except core.Violation as v:
        out["violation"] = v.v
    finally:
        if real_os is not None:
            lu.os = real_os
        for c in toys:
            try:
                lc.curves.remove(c)
            except ValueError:
                pass
    out["steps"] = out["ops"]
    out["digest"] = core.digest_of(log)
    out["rdigest"] = out["digest"]
    return out


def _key_snapshot(k):
    """What a caller can see of a key object it hands to the library."""
    c = k.curve
    snap = [id(c), c.name, tuple(c.oid or ()), id(c.curve), id(c.generator),
            bytes(k.to_string()).hex()]
    vk = getattr(k, "verifying_key", None)
    if vk is not None:
        snap += [id(vk.curve), bytes(vk.to_string()).hex()]
    try:
        snap.append(bytes(k.to_der()).hex())
    except Exception as ex:      # user-defined curves may have no DER form
        snap.append(type(ex).__name__)
    return snap


def _alias_case(op, mcA, cA, lk, lecdh, out, log, fail):
    """Keys whose Curve object is an equal-but-distinct alias of the agreed
    curve (same group in objects of its own, other name and OID - what a key
    restored by pickle, or built on a user-defined Curve, carries).  Whether
    the ECDH object refuses such a key (InvalidCurveError) or works with it is
    not judged; but a key handed over is a value - it must come back unchanged
    - and a secret that is returned must be the standard one."""
    alias = libx.alias_lib_curve(mcA)
    dA, dB = op["dA"] % mcA.n or 1, op["dB"] % mcA.n or 1
    side = op["side"]
    sk = lk.SigningKey.from_secret_exponent(
        dA, alias if side in ("priv", "both") else cA)
    vk = lk.SigningKey.from_secret_exponent(
        dB, alias if side in ("pub", "both") else cA).verifying_key
    snap_sk, snap_vk = _key_snapshot(sk), _key_snapshot(vk)
    e1 = lecdh.ECDH(curve=cA) if op["preset"] else lecdh.ECDH()
    core.bump(out["faults"], "alias_curve_object")
    out["nontrivial"] = True
    got = None
    trail = []
    try:
        for step, fn in (("load_private_key", lambda: e1.load_private_key(sk)),
                         ("load_received_public_key",
                          lambda: e1.load_received_public_key(vk)),
                         ("generate_sharedsecret",
                          e1.generate_sharedsecret)):
            try:
                res = fn()
                trail.append((step, "ok"))
                if step == "generate_sharedsecret":
                    got = int(res)
            except lecdh.InvalidCurveError:
                trail.append((step, "InvalidCurveError"))
            except (lecdh.NoKeyError, lecdh.InvalidSharedSecretError) as ex:
                trail.append((step, type(ex).__name__))
    except Exception as ex:
        fail("alias", type(ex).__name__, "ECDH with a key on an alias Curve "
             "object (%s) raised %r after %r" % (side, ex, trail))
    log.append(("alias", side, op["preset"], trail))
    for what, k, snap in (("private", sk, snap_sk), ("public", vk, snap_vk)):
        now = _key_snapshot(k)
        if now != snap:
            names = ["curve object", "curve name", "curve OID",
                     "CurveFp object", "generator object", "to_string",
                     "verifying key's curve object", "verifying key",
                     "to_der"]
            diff = [names[j] if j < len(names) else str(j)
                    for j in range(min(len(now), len(snap)))
                    if now[j] != snap[j]]
            fail("argument-changed", what + "-key",
                 "the caller's %s key object was altered by being handed to "
                 "an ECDH object working on an equal-but-distinct Curve "
                 "object: %s changed (calls: %r)" % (what, ", ".join(diff),
                                                    trail))
    if got is not None:
        x = ec.ecdh(mcA, dA, ec.mul(mcA, dB, mcA.G))
        if x is None or got != x:
            fail("alias", "secret", "shared secret %r with alias-curve keys "
                 "(%s), the model's x(dA*dB*G) is %r" % (got, side, x))


class _Skip(Exception):
    pass


_pts_cache = {}


def _curve_spec(spec):
    if not spec.startswith("regen:"):
        return mcurves.by_name(spec)
    _r, base, k = spec.split(":")
    mc = mcurves.by_name(base)
    G2 = ec.mul(mc, int(k), mc.G)
    return ec.MCurve("%s_regen%s" % (base, k), mc.p, mc.a, mc.b, G2[0], G2[1],
                     mc.n, mc.h, tuple(mc.oid) + (int(k),))


def _rxbuf(rxbufs, node, data, rnd, out):
    """A node may receive into one buffer object per message size and hand
    that same object (overwritten in place) to the loader every time."""
    if rnd.random() >= 0.4 or not data:
        return data
    key = (node, len(data))
    if key not in rxbufs:
        rxbufs[key] = bytearray(len(data))
    else:
        core.bump(out["probes"], "receive_buffer_reused")
    rxbufs[key][:] = data
    return rxbufs[key]


def _preload(lk, eo, data, how, rnd, out):
    """Another component of the same process (a logger, a cache warmer) has
    decoded the same bytes before with validation switched off - its own
    business; the validated load that follows must not be influenced."""
    if how != "bytes" or eo.curve is None or rnd.random() >= 0.2:
        return
    core.bump(out["probes"], "unvalidated_preload")
    try:
        lk.VerifyingKey.from_string(data, eo.curve, validate_point=False)
    except Exception:
        pass


def _pts(mc):
    if mc.name not in _pts_cache:
        _pts_cache[mc.name] = ec.all_points(mc)
    return _pts_cache[mc.name]


def _byz_point(mc, kind, rnd):
    toy = mc.p < (1 << 24)
    if kind == "offcurve":
        return (rnd.randrange(mc.p), rnd.randrange(mc.p))
    if kind == "alias":
        P = ec.mul(mc, rnd.randrange(1, min(mc.n, 1 << 20)), mc.G) if toy \
            else mc.G
        return (P[0] + mc.p, P[1])
    if mc.h == 1:
        return None
    if toy:
        pts = [P for P in _pts(mc) if not ec.in_subgroup(mc, P)
               and P[1] != 0]
        if kind == "low_order":
            low = [P for P in pts if ec.point_order(mc, P) <= mc.h
                   and ec.point_order(mc, P) % 2 == 1]
            pts = low or pts
        return rnd.choice(pts) if pts else None
    for _ in range(40):
        x = rnd.randrange(mc.p)
        y = ec.sqrt_mod((x ** 3 + mc.a * x + mc.b) % mc.p, mc.p)
        if y is None or y == 0:
            continue
        if not ec.in_subgroup(mc, (x, y)):
            return (x, y)
    return None


def _enc_any(mc, P, enc):
    L = mc.plen
    x, y = P
    if x >> (8 * L) or y >> (8 * L):
        return None
    xs, ys = x.to_bytes(L, "big"), y.to_bytes(L, "big")
    if enc == "raw":
        return xs + ys
    if enc == "uncompressed":
        return b"\x04" + xs + ys
    if enc == "compressed":
        if L == 1:
            return b"\x04" + xs + ys   # collides with raw on 1-byte fields
        return bytes([2 + (y & 1)]) + xs
    return bytes([6 + (y & 1)]) + xs + ys
