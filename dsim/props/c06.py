from .. import core, hist
from ..model import curves as mcurves
from ._histcommon import *  # noqa: F401,F403

ID = "C06"
RULE = ("seeded histories (5-40 ops, addition/doubling/negation/equality "
        "heavy) on a pool of live points whose internal representation is "
        "whatever the history produced; toy curves (odd and, in 12% of runs, "
        "even group order) and 5% named curves; non-trivial = >= 2 "
        "state-changing operations or >= 1 fault fired; distinct = distinct "
        "sha256 of the executed operation/outcome log")
HISTORY_DIFF = {"quick": 120, "thorough": 1000}
REQUIRED_PROBES = {"quick": [], "thorough": []}


def budget(tier):
    if tier == "quick":
        return dict(runs=70000, wall=75, chunk=250)
    return dict(runs=1500000, wall=840, chunk=1000)


def generate(run_seed, tier):
    r = core.rng(run_seed, "curveset")
    names = even_toys() if r.random() < 0.12 else odd_toys()
    return hist.gen_program("C06", run_seed, tier, names, named_small(),
                            (5, 40 if tier == "quick" else 80))
