from .. import core, hist
from ..model import curves as mcurves
from ._histcommon import *  # noqa: F401,F403

ID = "C07"
RULE = ("seeded histories (5-30 ops, multiplication / mul_add heavy, "
        "structured scalars incl. 0, negative, n-1, n, n+1, 2n, > 2n) on "
        "generators with unbuilt/built/interrupted tables, points with and "
        "without declared order, legacy points; toy curves and 6% named "
        "curves; non-trivial = >= 2 state-changing operations or >= 1 fault; "
        "distinct = distinct sha256 of the operation/outcome log")
HISTORY_DIFF = {"quick": 120, "thorough": 1000}
REQUIRED_PROBES = {"quick": [], "thorough": []}


def budget(tier):
    if tier == "quick":
        return dict(runs=45000, wall=75, chunk=200)
    return dict(runs=1200000, wall=840, chunk=800)


def generate(run_seed, tier):
    r = core.rng(run_seed, "curveset")
    names = even_toys() if r.random() < 0.10 else odd_toys()
    return hist.gen_program("C07", run_seed, tier, names, named_small(),
                            (5, 30 if tier == "quick" else 60), named_frac=0.06)
