"""C08 - public keys are accepted iff they encode a valid point of the right
group.

A sender publishes a public key in one of 4 point encodings x 3 containers;
the channel damages it or a Byzantine sender forges it (aliased coordinates,
off-curve points, non-residue x, parity mismatch, wrong prefix / length,
points outside the prime-order subgroup on cofactor curves, raw encoding
inside DER).  The reference model's validator gives the full accept / reject
truth table.
"""
import random

from .. import core, libx, world
from ..model import curves as mcurves
from ..model import der as mder
from ..model import ec

ID = "C08"
LEVEL = "exploration"
# a run stuck inside C code (beyond the reach of a Python signal handler) is
# cut off by a watchdog thread after this many seconds (core._hard_hangs)
RUN_HARD_TIMEOUT = 120
RULE = ("each run = one curve (named 60% incl. the cofactor-4 curve "
        "SECP112r2 with extra weight; toy 40% incl. cofactor 2/3/4 toys where "
        "every curve point is reachable) and 8-16 deliveries of a public key "
        "in raw / uncompressed / compressed / hybrid form, bare or inside "
        "SubjectPublicKeyInfo DER / PEM, or as a point object with validation "
        "on; each delivery intact, channel-damaged or Byzantine-forged; "
        "non-trivial = >= 1 damaged or forged delivery; distinct = distinct "
        "sha256 of the delivered (container, bytes) list")
COMPONENTS_REAL = ["ecdsa.keys VerifyingKey.from_string / from_der / from_pem "
                   "/ from_public_point", "ecdsa.ecdsa Public_key validation",
                   "ecdsa.numbertheory square root", "ecdsa.der"]
COMPONENTS_STUB = ["channel (fault injector)", "Byzantine sender (harness)",
                   "oracle: model SEC1 decoder + full public-key validation "
                   "+ strict SPKI parser"]
ASSUMPTIONS = ["model validator implements SEC1 2.3.4 / 3.2.2.1 (range, curve "
               "equation, subgroup membership by n*P = O with the model's own "
               "arithmetic)", "PEM armour / base64 layer is judged by C10, not "
               "here: DER bytes are taken with the library's own unpem"]
HISTORY_DIFF = {"quick": 120, "thorough": 1000}
SHRINK = [["items"]]
REQUIRED_PROBES = {"quick": ["reject_subgroup", "reject_range", "accept",
                             "reject_offcurve", "reject_nonresidue"],
                   "thorough": ["reject_subgroup", "reject_range", "accept",
                                "reject_offcurve", "reject_nonresidue"]}

BYZ = ["alias_x", "alias_y", "offcurve", "nonresidue", "parity", "prefix",
       "length", "subgroup", "subgroup", "zero", "raw_in_der", "y_zero",
       "wrong_oid", "infinity_byte", "wrong_alg"]

# algorithm identifiers an SPKI must not carry for an ECDSA key: keys
# restricted to ECDH / ECMQV (RFC 5480), signature OIDs, other key types
ALG_OIDS = [(1, 3, 132, 1, 12), (1, 3, 132, 1, 13), (1, 2, 840, 113549, 1, 1, 1),
            (1, 2, 840, 10045, 4, 3, 2), (1, 2, 840, 10045, 2, 2),
            (1, 2, 840, 10045, 2), (1, 2, 840, 10045, 2, 1, 0),
            (1, 3, 101, 112)]


def budget(tier):
    if tier == "quick":
        return dict(runs=40000, wall=75, chunk=300)
    return dict(runs=400000, wall=840, chunk=600)


def generate(run_seed, tier):
    r = core.rng(run_seed, "ops")
    if r.random() < 0.6:
        cname = r.choice(["SECP112r2"] * 6 +
                         ["SECP112r1", "SECP128r1", "SECP160r1", "NIST192p",
                          "BRAINPOOLP160r1", "NIST224p", "NIST256p",
                          "BRAINPOOLP192r1", "NIST521p", "BRAINPOOLP320r1"] +
                         [c.name for c in mcurves.named()])
    else:
        toys = [c.name for c in mcurves.toy()]
        cof = [c.name for c in mcurves.toy() if c.h != 1]
        cname = r.choice(toys + cof * 3)
    mc = mcurves.by_name(cname)
    items = []
    for _ in range(r.randrange(8, 17)):
        mode = r.choice(["intact", "channel", "channel", "byz", "byz", "byz"])
        it = dict(mode=mode, k=r.randrange(1, mc.n),
                  enc=r.choice(["raw", "uncompressed", "compressed",
                                "hybrid"]),
                  container=r.choice(["bare", "bare", "der", "pem", "object"]),
                  fseed=r.getrandbits(32),
                  preload=r.random() < 0.15)
        if mode == "channel":
            it["faults"] = [r.choice(world.BYTE_FAULTS)
                            for _ in range(r.choice([1, 1, 2]))]
            it["layer"] = r.choice(["point", "point", "container"])
        if mode == "byz":
            it["byz"] = r.choice(BYZ)
        items.append(it)
    return dict(curve=cname, items=items)


def _outside_subgroup(mc, rnd):
    """A curve point outside <G> (cofactor curves only), via the model."""
    if mc.h == 1:
        return None
    if mc.p < (1 << 24):
        pts = [P for P in _pts(mc) if not ec.in_subgroup(mc, P)]
        return rnd.choice(pts) if pts else None
    for _ in range(64):
        x = rnd.randrange(mc.p)
        y = ec.sqrt_mod((x * x * x + mc.a * x + mc.b) % mc.p, mc.p)
        if y is None:
            continue
        if rnd.random() < 0.5:
            y = (mc.p - y) % mc.p
        P = (x, y)
        if not ec.in_subgroup(mc, P):
            # multiply into a small-order / 2n-order class sometimes
            c = rnd.randrange(3)
            if c == 0:
                Q = ec.mul(mc, mc.n, P)         # order divides h
                if Q is not ec.O:
                    return Q
            return P
    return None


_pts_cache = {}


def _pts(mc):
    if mc.name not in _pts_cache:
        _pts_cache[mc.name] = ec.all_points(mc)
    return _pts_cache[mc.name]


def _enc_any(mc, x, y, enc, prefix=None):
    """The harness's encoder: can express out-of-range coordinates."""
    L = mc.plen
    if x >> (8 * L) or y >> (8 * L) or x < 0 or y < 0:
        return None
    xs, ys = x.to_bytes(L, "big"), y.to_bytes(L, "big")
    if enc == "raw":
        return xs + ys
    if enc == "uncompressed":
        return bytes([prefix if prefix is not None else 4]) + xs + ys
    if enc == "hybrid":
        return bytes([prefix if prefix is not None else 6 + (y & 1)]) + xs + ys
    return bytes([prefix if prefix is not None else 2 + (y & 1)]) + xs


def execute(prog):
    core.lib()
    from ecdsa import keys as lk, der as lder, curves as lc
    from ecdsa import ellipticcurve as le
    out = core.new_outcome()
    mc = mcurves.by_name(prog["curve"])
    curve, toy = libx.run_curve(mc)
    log = []
    rlog = []

    def fail(oracle, site, msg, detail=None):
        raise core.Violation(core.violation(ID, oracle, site, msg, detail))

    with libx.registered(curve, toy):
        try:
            for it in prog["items"]:
                out["ops"] += 1
                rnd = random.Random(it["fseed"])
                if toy:
                    P = ec.mul(mc, it["k"], mc.G)
                else:
                    # base point generation only (the verdict below is the
                    # model's): the library's generator table is faster
                    pj = curve.generator * it["k"]
                    P = (int(pj.x()), int(pj.y()))
                enc = it["enc"]
                if mc.plen == 1 and enc == "compressed":
                    enc = "uncompressed"    # collides with raw on 1-byte fields
                cont = it["container"]
                if cont in ("der", "pem") and not libx.fmt_ok(toy, cont):
                    cont = "bare"
                if cont in ("der", "pem") and enc == "raw":
                    enc = "uncompressed"
                pt_bytes = ec.encode_point(mc, P, enc)
                oid = mc.oid
                obj_point = None
                alg_oid = None
                descr = it["mode"]
                if it["mode"] == "byz":
                    out["nontrivial"] = True
                    b = it["byz"]
                    descr = "byz:" + b
                    core.bump(out["faults"], "byz_" + b)
                    x, y = P
                    nb = None
                    if b == "alias_x":
                        nb = _enc_any(mc, x + mc.p, y, enc if enc != "compressed" else "uncompressed")
                        if cont == "object":
                            obj_point = (x + rnd.choice([1, 1, -1, 2]) * mc.p, y)
                    elif b == "alias_y":
                        nb = _enc_any(mc, x, y + mc.p, enc if enc != "compressed" else "hybrid")
                        if cont == "object":
                            obj_point = (x, y + rnd.choice([1, 1, -1, 2]) * mc.p)
                    elif b == "offcurve":
                        nb = _enc_any(mc, rnd.randrange(mc.p),
                                      rnd.randrange(mc.p),
                                      enc if enc != "compressed" else "raw")
                    elif b == "nonresidue":
                        for _ in range(64):
                            xx = rnd.randrange(mc.p)
                            if ec.legendre(xx ** 3 + mc.a * xx + mc.b,
                                           mc.p) == -1:
                                nb = bytes([rnd.choice([2, 3])]) + \
                                    xx.to_bytes(mc.plen, "big")
                                break
                        if mc.plen == 1:
                            nb = None
                    elif b == "parity":
                        if enc in ("hybrid", "compressed"):
                            nb = bytes([pt_bytes[0] ^ 1]) + pt_bytes[1:]
                        else:
                            nb = _enc_any(mc, x, y, "hybrid",
                                          prefix=6 + ((y & 1) ^ 1))
                    elif b == "prefix":
                        pre = rnd.choice([0, 1, 5, 8, 0x84, 0xFF, 2, 3, 4, 6, 7])
                        base = pt_bytes if enc != "raw" else \
                            ec.encode_point(mc, P, "uncompressed")
                        nb = bytes([pre]) + base[1:]
                    elif b == "length":
                        base = ec.encode_point(mc, P, rnd.choice(
                            ["raw", "uncompressed", "compressed"]))
                        d_ = rnd.choice([-2, -1, 1, 2])
                        nb = base[:d_] if d_ < 0 else base + rnd.randbytes(d_)
                    elif b == "subgroup":
                        Pb = _outside_subgroup(mc, rnd)
                        if Pb is not None:
                            e2 = enc
                            if cont == "object":
                                obj_point = Pb
                            nb = ec.encode_point(mc, Pb, e2)
                    elif b == "zero":
                        nb = _enc_any(mc, 0, 0, enc if enc != "compressed" else "raw")
                    elif b == "y_zero":
                        # (x, 0) is on the curve iff x^3+ax+b = 0: order-2 point
                        if mc.p < (1 << 24):
                            c = [Pp for Pp in _pts(mc) if Pp[1] == 0]
                            if c:
                                Pb = rnd.choice(c)
                                if cont == "object":
                                    obj_point = Pb
                                nb = ec.encode_point(mc, Pb, enc)
                        else:
                            nb = _enc_any(mc, x, 0, enc if enc != "compressed" else "uncompressed")
                    elif b == "raw_in_der" and libx.fmt_ok(toy, "der"):
                        nb = ec.encode_point(mc, P, "raw")
                        cont = rnd.choice(["der", "pem"])
                    elif b == "wrong_oid" and libx.fmt_ok(toy, "der"):
                        oid = rnd.choice([(1, 2, 3, 4), (1, 3, 132, 0, 99),
                                          tuple(mc.oid[:-1]) + (mc.oid[-1] + 1,),
                                          tuple(mc.oid) + (1,),
                                          tuple(mc.oid) + (0, 3),
                                          tuple(mc.oid[:-1]),
                                          tuple(mc.oid[:-2]),
                                          tuple(mc.oid[:-1]) + (mc.oid[-1] + 128,)])
                        cont = rnd.choice(["der", "pem"])
                    elif b == "infinity_byte":
                        nb = b"\x00"
                    elif b == "wrong_alg" and libx.fmt_ok(toy, "der"):
                        alg_oid = rnd.choice(ALG_OIDS)
                        cont = rnd.choice(["der", "pem"])
                        if enc == "raw":
                            enc = "uncompressed"
                            pt_bytes = ec.encode_point(mc, P, enc)
                    if nb is not None:
                        pt_bytes = nb
                if cont == "object" and obj_point is None and \
                        it["mode"] == "byz" and it["byz"] in ("offcurve",):
                    obj_point = (rnd.randrange(mc.p), rnd.randrange(mc.p))
                # ---- container
                if cont in ("der", "pem"):
                    data = mder.spki(oid, pt_bytes)
                    if alg_oid is not None:
                        data = mder.enc_seq(
                            mder.enc_seq(mder.enc_oid(alg_oid),
                                         mder.enc_oid(oid)),
                            mder.enc_bits(pt_bytes, 0))
                else:
                    data = pt_bytes
                if it["mode"] == "channel":
                    for k_ in it["faults"]:
                        if cont in ("der", "pem") and it["layer"] == "point":
                            npb, _d = world.apply_fault(rnd, pt_bytes, k_)
                            if npb != pt_bytes:
                                core.bump(out["faults"], k_)
                                out["nontrivial"] = True
                            pt_bytes = npb
                            data = mder.spki(oid, pt_bytes)
                        else:
                            nd, _d = world.apply_fault(rnd, data, k_)
                            if nd != data:
                                core.bump(out["faults"], k_)
                                out["nontrivial"] = True
                            data = nd
                log.append((cont, data.hex()))
                # ---- the model's verdict
                if cont == "object":
                    Pobj = obj_point if obj_point is not None else P
                    why = ec.validate_point(mc, Pobj)
                    verdict = ("ok", Pobj) if why is None else ("point", why)
                elif cont == "bare":
                    st, val = ec.decode_point(mc, data)
                    verdict = ("ok", val) if st == "ok" else ("point", val)
                else:
                    try:
                        oid2, pb = mder.parse_spki(data)
                        c2 = mc if tuple(oid2) == mc.oid else \
                            mcurves.by_oid(oid2)
                        if c2 is None:
                            verdict = ("wrapper", "unknown-curve")
                        elif c2 is not mc:
                            verdict = ("skip", "other-curve")
                        else:
                            st, val = ec.decode_point(mc, pb, allow_raw=False)
                            if st == "ok":
                                verdict = ("ok", val)
                            elif val == "raw-not-allowed":
                                verdict = ("wrapper", "raw-in-der")
                            else:
                                verdict = ("point", val)
                    except mder.DERError as ex:
                        verdict = ("wrapper", str(ex))
                if verdict[0] == "skip":
                    continue
                # ---- another component loaded the same bytes before with
                # validation switched off (its business); the validated load
                # below must not be influenced by that
                if it.get("preload") and cont == "bare":
                    try:
                        lk.VerifyingKey.from_string(data, curve,
                                                    validate_point=False)
                    except Exception:
                        pass
                # ---- the library
                try:
                    if cont == "object":
                        Pobj = obj_point if obj_point is not None else P
                        # the object may sit on the key's own CurveFp or on an
                        # equal twin that declares another cofactor (CurveFp
                        # equality ignores h): which group the key must lie
                        # in is decided by the key's curve, not the object's
                        cfp = curve.curve
                        tw = rnd.random()
                        if tw < 0.35:
                            cfp = le.CurveFp(mc.p, cfp.a(), mc.b, rnd.choice(
                                [1, 1, None, mc.h, 2 * mc.h]))
                            core.bump(out["probes"], "object_on_twin_curve")
                        flav = rnd.random()
                        try:
                            if flav < 0.4:
                                pobj = le.PointJacobi(cfp, Pobj[0], Pobj[1],
                                                      1, mc.n)
                            elif flav < 0.55:
                                pobj = le.PointJacobi(cfp, Pobj[0], Pobj[1], 1)
                            else:
                                pobj = _legacy(le, cfp, Pobj)
                        except _LegacyRefused:
                            raise
                        except Exception:
                            # a point class that refuses to represent the
                            # object at all: nothing to deliver
                            raise _LegacyRefused()
                        vk = lk.VerifyingKey.from_public_point(
                            pobj, curve, validate_point=True)
                    elif cont == "bare":
                        vk = lk.VerifyingKey.from_string(data, curve)
                    elif cont == "der":
                        vk = lk.VerifyingKey.from_der(data)
                    else:
                        vk = lk.VerifyingKey.from_pem(mder.pem(data,
                                                               "PUBLIC KEY"))
                    got = ("ok", (int(vk.pubkey.point.x()),
                                  int(vk.pubkey.point.y())))
                    if vk.curve is not curve:
                        got = ("ok-other-curve", vk.curve.name)
                except lk.MalformedPointError:
                    got = ("point", None)
                except (lder.UnexpectedDER, lc.UnknownCurveError) as ex:
                    got = ("wrapper", type(ex).__name__)
                except _LegacyRefused:
                    continue
                except Exception as ex:
                    fail("exception", "%s-%s" % (cont, type(ex).__name__),
                         "loading a public key (%s, %s) raised %s(%s) on %s" % (
                             cont, descr, type(ex).__name__, ex,
                             data.hex()[:200]), dict(item=it))
                rlog.append((cont, data.hex(), got[0], list(got[1])
                             if isinstance(got[1], tuple) else got[1]))
                if verdict[0] == "ok":
                    core.bump(out["probes"], "accept")
                else:
                    core.bump(out["probes"], "reject_" + {
                        "range": "range", "off-curve": "offcurve",
                        "subgroup": "subgroup", "non-residue": "nonresidue",
                    }.get(verdict[1], "other"))
                if verdict[0] == "ok":
                    if got[0] != "ok":
                        fail("rejects-valid", cont,
                             "valid public key %s (%s, point %r on %s) was "
                             "rejected with %r" % (data.hex()[:200], descr,
                                                   verdict[1], mc.name, got),
                             dict(item=it, delivered=data.hex()))
                    if tuple(got[1]) != tuple(verdict[1]):
                        fail("wrong-point", cont,
                             "accepted key denotes %r, the encoding denotes %r"
                             % (got[1], verdict[1]), dict(item=it))
                elif got[0].startswith("ok"):
                    fail("accepts-invalid", verdict[1].split(":")[0][:24]
                         if verdict[0] == "point" else "wrapper",
                         "invalid public key accepted on %s: %s (%s); model "
                         "says %s/%s; library returned point %r" % (
                             mc.name, data.hex()[:200], descr, verdict[0],
                             verdict[1], got[1]),
                         dict(item=it, delivered=data.hex()))
                elif verdict[0] == "point" and got[0] != "point":
                    fail("exception-type", "point-layer",
                         "a well-formed container with an invalid point (%s) "
                         "must raise MalformedPointError, got %s" % (
                             verdict[1], got[1]), dict(item=it))
                elif verdict[0] == "wrapper" and got[0] == "point":
                    # which layer complains first is not fixed when both the
                    # wrapper and the point are bad; only a *good* wrapper
                    # pins the exception type
                    pass
        except core.Violation as v:
            out["violation"] = v.v
    out["steps"] = out["ops"]
    out["digest"] = core.digest_of(log)
    out["rdigest"] = core.digest_of(rlog)
    return out


class _LegacyRefused(Exception):
    pass


def _legacy(le, cfp, P):
    """A legacy affine Point object for P; the legacy constructor itself
    asserts the curve equation, so off-curve objects cannot be built."""
    try:
        return le.Point(cfp, P[0], P[1])
    except AssertionError:
        raise _LegacyRefused()
