"""C09 - keys round-trip through every serialisation and emit exact DER.

A key-store node persists a key, restarts, reloads it - for a seeded chain of
generations each choosing a different serialisation, so drift across formats
would accumulate.  An independent implementation (the model's strict codec)
plays the peer: it parses what the library wrote and writes keys the library
must load.  The store is fault-free here by construction (a faulty store is
C10).
"""
from .. import core, formats, libx
from ..model import curves as mcurves
from ..model import der as mder
from ..model import ec

ID = "C09"
LEVEL = "exploration"
# a run stuck inside C code (beyond the reach of a Python signal handler) is
# cut off by a watchdog thread after this many seconds (core._hard_hangs)
RUN_HARD_TIMEOUT = 120
RULE = ("each run = one curve (named 70%, toy 30%), one private scalar "
        "(structured: boundaries, leading-zero scalars, scalars whose public "
        "coordinates have leading zero bytes) and a chain of 2-7 persist / "
        "restart / reload generations over private formats (raw, ssleay / "
        "pkcs8 x DER / PEM x 3 point encodings, pickle) and public formats "
        "(4 point encodings, DER / PEM x 3, pickle), plus keys written by the "
        "independent encoder; non-trivial = >= 2 generations; distinct = "
        "distinct sha256 of (curve, d, format chain)")
COMPONENTS_REAL = ["ecdsa.keys SigningKey / VerifyingKey to_* and from_*",
                   "ecdsa.der", "ecdsa.curves OID table", "pickle"]
COMPONENTS_STUB = ["key store (bytes kept by the harness, fault-free)",
                   "peer implementation: dsim/model strict DER / SEC1 codec"]
ASSUMPTIONS = ["model codec implements RFC 5480 / 5915 / 5958 named-curve "
               "structures and SEC1 point encodings",
               "frozen curve table (validated mathematically at setup)"]
HISTORY_DIFF = {"quick": 120, "thorough": 1000}
SHRINK = [["chain"]]
REQUIRED_PROBES = {"quick": ["leading_zero_d", "leading_zero_coord"],
                   "thorough": ["leading_zero_d", "leading_zero_coord"]}


def budget(tier):
    if tier == "quick":
        return dict(runs=13000, wall=75, chunk=100)
    return dict(runs=300000, wall=840, chunk=500)


def generate(run_seed, tier):
    r = core.rng(run_seed, "ops")
    if r.random() < 0.7:
        names = [c.name for c in mcurves.named()]
        small = ["SECP112r1", "SECP112r2", "SECP128r1", "SECP160r1",
                 "NIST192p", "NIST224p", "BRAINPOOLP160r1", "NIST256p"]
        cname = r.choice(small * 3 + names)
    else:
        cname = r.choice([c.name for c in mcurves.toy() if c.h == 1])
    mc = mcurves.by_name(cname)
    lz = libx.leading_zero_scalars(cname)
    c = r.randrange(4)
    if c == 0 and lz["x0"]:
        d = r.choice(lz["x0"] + lz["y0"])
    else:
        d = libx.key_scalar(r, mc.n)
    chain = []
    sk_f = formats.sk_formats(mc)
    vk_f = formats.vk_formats(mc)
    for _ in range(r.randrange(2, 8)):
        # third field: restart (adopt the reloaded key) or keep using the
        # same live object for the next serialisation
        restart = r.random() < 0.65
        how = r.choice(["bytes", "bytes", "bytes", "reuse", "reuse",
                        "bytearray", "mv", "arrayB", "arrayb", "mvb"])
        if r.random() < 0.55:
            chain.append(["sk", r.choice(sk_f), restart, how])
        else:
            chain.append(["vk", r.choice(vk_f), restart, how])
    if r.random() < 0.5:
        chain.append(["model_sk", r.choice([f for f in sk_f if f != "pickle"])])
    if r.random() < 0.3:
        # RFC 5958 keys as other implementations write them: version 0, or
        # with the optional attributes [0] / publicKey [1] fields
        chain.append(["model_sk", r.choice(["der", "pem"]) + ":" + r.choice(
            ["pkcs8v0", "pkcs8attrs", "pkcs8pub", "pkcs8both"]) + ":" +
            r.choice(["uncompressed", "compressed"] if mc.plen > 1
                     else ["uncompressed"])])
    if r.random() < 0.5:
        chain.append(["model_vk", r.choice([f for f in vk_f if f != "pickle"])])
    return dict(curve=cname, d=d, chain=chain,
                hash=r.choice(["sha1", "sha256", "sha512", "synth24"]),
                # the key is re-loaded with the plain loader call (the hash
                # function is not part of any serialisation)
                plain_load=r.random() < 0.3)


# one writable buffer that the "application" re-uses for every key it reads
# (a library that keeps a view into the caller's buffer would see it change)
_REUSE = bytearray(16384)


def _present(data, how):
    """The persisted bytes as the loader receives them."""
    if how == "reuse" and len(data) <= len(_REUSE):
        _REUSE[:len(data)] = data
        return memoryview(_REUSE)[:len(data)]
    if how in ("bytes", "reuse"):
        return data
    from .c12 import _as_buffer
    return _as_buffer(data, how)


def execute(prog):
    core.lib()
    from ecdsa import keys as lk
    out = core.new_outcome()
    bad = libx.named_table_discrepancies()
    if bad:
        out["violation"] = core.violation(
            ID, "curve-table", bad[0].split(":")[0].replace(" ", "_")[:40],
            "library curve constants disagree with the frozen table: "
            + "; ".join(bad[:4]))
        return out
    bad = libx.exported_curve_roundtrips()
    if bad:
        out["violation"] = core.violation(
            ID, "exported-curve", bad[0].split(":")[0][:40],
            "a curve the package exports does not round-trip its keys: "
            + "; ".join(bad[:3]))
        return out
    mc = mcurves.by_name(prog["curve"])
    curve, toy = libx.run_curve(mc)
    hf = libx.hash_by_name(prog["hash"])
    d = prog["d"]
    Q = ec.mul(mc, d, mc.G)
    if d < (1 << (8 * (mc.nlen - 1))):
        core.bump(out["probes"], "leading_zero_d")
    if Q[0] < (1 << (8 * (mc.plen - 1))) or Q[1] < (1 << (8 * (mc.plen - 1))):
        core.bump(out["probes"], "leading_zero_coord")

    def lookup(oid):
        if tuple(oid) == mc.oid:
            return mc
        return mcurves.by_oid(oid)

    def fail(oracle, site, msg, detail=None):
        raise core.Violation(core.violation(ID, oracle, site, msg, detail))

    rlog = []
    with libx.registered(curve, toy):
        try:
            try:
                sk0 = lk.SigningKey.from_secret_exponent(d, curve, hf)
            except Exception as e:
                fail("construct", type(e).__name__,
                     "from_secret_exponent(%d) raised %r" % (d, e))
            ref_sig = bytes(sk0.sign_deterministic(b"c09", hashfunc=hf))
            sk = sk0
            vk = sk0.verifying_key
            for gen, ent in enumerate(prog["chain"]):
                kind, fmt = ent[0], ent[1]
                restart = ent[2] if len(ent) > 2 else True
                if not libx.fmt_ok(toy, fmt):
                    continue
                out["ops"] += 1
                where = "%s:%s" % (kind, fmt)
                try:
                    if kind == "sk":
                        data = formats.sk_dump(sk, fmt)
                    elif kind == "vk":
                        data = formats.vk_dump(vk, fmt)
                    elif kind == "model_sk":
                        data = formats.model_sk_bytes(mc, d, Q, fmt)
                    else:
                        data = formats.model_vk_bytes(mc, Q, fmt)
                except Exception as e:
                    fail("serialise", "%s-%s" % (where, type(e).__name__),
                         "serialising via %s raised %r" % (where, e))
                private = kind.endswith("sk")
                if fmt != "pickle":
                    rlog.append((kind, fmt, data.hex()))
                if fmt != "pickle" and not kind.startswith("model"):
                    # byte-exact canonical output
                    want = formats.model_sk_bytes(mc, d, Q, fmt) if private \
                        else formats.model_vk_bytes(mc, Q, fmt)
                    if data != want:
                        fail("exact-bytes", where,
                             "library wrote %s, the independent encoder "
                             "writes %s" % (data.hex()[:300], want.hex()[:300]),
                             dict(got=data.hex(), want=want.hex()))
                    # the independent strict decoder recovers the same values
                    try:
                        if private:
                            c2, d2, Q2 = formats.model_parse_sk(lookup, data,
                                                                fmt, mc)
                        else:
                            c2, Q2 = formats.model_parse_vk(lookup, data, fmt,
                                                            mc)
                            d2 = d
                    except mder.DERError as e:
                        fail("peer-parse", where, "the independent strict "
                             "decoder rejects the library's output: %s" % e)
                    if c2 is not mc or d2 != d or (Q2 is not None
                                                   and Q2 != Q):
                        fail("peer-parse", where + "-values",
                             "peer recovered curve %s d=%r Q=%r, want %s %d %r"
                             % (c2.name, d2, Q2, mc.name, d, Q))
                # restart: reload from the persisted bytes only
                how = ent[3] if len(ent) > 3 else "bytes"
                if fmt == "pickle" or fmt.startswith("pem") or \
                        ":pem" in fmt or fmt.split(":")[0] == "pem":
                    how = "bytes"       # text / pickle stay plain bytes
                try:
                    arg = _present(data, how)
                    lhf = None if (prog.get("plain_load")
                                   and fmt != "pickle") else hf
                    if private:
                        new = formats.sk_load(lk, arg, fmt, curve, lhf)
                    else:
                        new = formats.vk_load(lk, arg, fmt, curve, lhf)
                except Exception as e:
                    fail("reload", "%s-%s" % (where, type(e).__name__),
                         "loading what was %s raised %r" % (
                             "written by the peer" if kind.startswith("model")
                             else "just written", e))
                if private:
                    nsk, nvk = new, new.verifying_key
                else:
                    nsk, nvk = None, new
                # same values
                if bytes(nvk.to_string()) != ec.encode_point(mc, Q, "raw"):
                    fail("roundtrip", where + "-point",
                         "reloaded key has public point %s, want %s" % (
                             bytes(nvk.to_string()).hex(),
                             ec.encode_point(mc, Q, "raw").hex()))
                if nsk is not None and bytes(nsk.to_string()) != \
                        d.to_bytes(mc.nlen, "big"):
                    fail("roundtrip", where + "-scalar",
                         "reloaded key has scalar %s" % bytes(
                             nsk.to_string()).hex())
                if not prog.get("plain_load") and (
                        nvk.default_hashfunc is not hf or (
                        nsk is not None and nsk.default_hashfunc is not hf)):
                    fail("roundtrip", where + "-default-hash",
                         "the reloaded key's default hash function is %r, it "
                         "was loaded with %r" % (nvk.default_hashfunc, hf))
                if fmt != "pickle":
                    if nvk.curve is not curve:
                        fail("roundtrip", where + "-curve",
                             "reloaded key is on curve object %r, not the "
                             "curve it was written for" % (nvk.curve,))
                    if private and not (nsk == sk0) or (private and nsk != sk0):
                        fail("roundtrip", where + "-eq",
                             "reloaded signing key != original")
                    if not (nvk == sk0.verifying_key) or \
                            nvk != sk0.verifying_key:
                        fail("roundtrip", where + "-vk-eq",
                             "reloaded verifying key != original")
                # makes and verifies the same signatures
                if nsk is not None:
                    s2 = bytes(nsk.sign_deterministic(b"c09", hashfunc=hf))
                    if s2 != ref_sig:
                        fail("roundtrip", where + "-signature",
                             "reloaded key makes a different deterministic "
                             "signature")
                try:
                    okv = nvk.verify(ref_sig, b"c09", hashfunc=hf)
                except Exception as e:
                    okv = e
                if okv is not True:
                    fail("roundtrip", where + "-verify",
                         "reloaded key does not verify the original's "
                         "signature: %r" % (okv,))
                if restart:
                    if nsk is not None:
                        sk = nsk
                    vk = nvk
        except core.Violation as v:
            out["violation"] = v.v
    out["nontrivial"] = len(prog["chain"]) >= 2
    out["steps"] = out["ops"]
    out["digest"] = core.digest_of([prog["curve"], prog["d"], prog["chain"]])
    out["rdigest"] = core.digest_of(rlog)
    return out
