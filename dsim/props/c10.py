"""C10 - decoders of external data fail only with their documented exceptions.

A valid item produced by the library (key or signature, any curve, any
encoding) is put into the simulated store/channel, hit by 1-3 faults and
handed to a decoder entry point.  The call must terminate and either return a
usable object or raise a documented exception type.
"""
import random

from .. import core, libx, world
from ..model import curves as mcurves

ID = "C10"
LEVEL = "exploration"
# a run stuck inside C code (beyond the reach of a Python signal handler) is
# cut off by a watchdog thread after this many seconds (core._hard_hangs)
RUN_HARD_TIMEOUT = 90
RULE = ("each run = one curve, one key, 8-16 deliveries; each delivery is a "
        "valid encoding (public key raw/uncompressed/compressed/hybrid, DER, "
        "PEM; private key raw, ssleay/pkcs8 DER/PEM; signature raw/pair/DER) "
        "hit by 1-3 seeded store/channel faults and given to one decoder "
        "entry point (key loaders, signature decoders, verify through each "
        "decoder, ECDH loaders); non-trivial = >= 1 fault changed the bytes; "
        "distinct = distinct sha256 of the delivered (entry, bytes) list")
COMPONENTS_REAL = ["ecdsa.keys loaders and verify", "ecdsa.der", "ecdsa.util "
                   "signature decoders", "ecdsa.ecdh loaders"]
COMPONENTS_STUB = ["key store / channel (fault injector)"]
ASSUMPTIONS = ["documented exception sets as listed in DOC below (taken from "
               "the property statement and the docstrings)",
               "a call running longer than 20 s wall is counted as not "
               "terminating"]
HISTORY_DIFF = {"quick": 120, "thorough": 1000}
SHRINK = [["items"]]
REQUIRED_PROBES = {"quick": ["returned_object", "raised_documented"],
                   "thorough": ["returned_object", "raised_documented"]}

ENTRIES = ["vk_from_string", "vk_from_der", "vk_from_pem", "sk_from_string",
           "sk_from_der", "sk_from_pem", "sigdecode_string",
           "sigdecode_strings", "sigdecode_der", "verify_string",
           "verify_strings", "verify_der", "verify_digest_der",
           "ecdh_priv_bytes", "ecdh_priv_der", "ecdh_priv_pem",
           "ecdh_pub_bytes", "ecdh_pub_der", "ecdh_pub_pem"]
WEIGHTS = [5, 7, 7, 3, 10, 10, 2, 2, 4, 3, 2, 4, 2, 2, 4, 4, 3, 4, 4]


def budget(tier):
    if tier == "quick":
        return dict(runs=24000, wall=75, chunk=200)
    return dict(runs=600000, wall=840, chunk=1000)


def generate(run_seed, tier):
    r = core.rng(run_seed, "ops")
    named = [c.name for c in mcurves.named()]
    # small curves dominate: key loaders multiply
    cname = r.choice(["SECP112r1", "SECP112r2", "SECP128r1", "SECP160r1",
                      "NIST192p", "BRAINPOOLP160r1"] * 3 + named)
    mc = mcurves.by_name(cname)
    d = libx.key_scalar(r, mc.n)
    items = []
    for _ in range(r.randrange(8, 17)):
        e = r.choices(ENTRIES, WEIGHTS)[0]
        it = dict(entry=e, fseed=r.getrandbits(32),
                  enc=r.choice(["uncompressed", "compressed", "hybrid", "raw"]),
                  fmt=r.choice(["ssleay", "pkcs8"]),
                  msg=core.hx(r.randbytes(r.choice([0, 1, 16]))),
                  as_str=r.random() < 0.3, mv=r.random() < 0.2,
                  buf=r.choice(["bytes", "bytes", "bytes", "mv", "bytearray",
                                "mvw", "arrayB"]),
                  ecdh_curve=r.choice(["none", "same", "same", "other"]))
        nf = r.choice([1, 1, 1, 2, 2, 3])
        pem = e.endswith("_pem")
        kinds = []
        for _ in range(nf):
            if pem and r.random() < 0.7:
                kinds.append("pem:" + r.choice(world.PEM_FAULTS))
            else:
                kinds.append(r.choice(world.BYTE_FAULTS))
        if r.random() < 0.06:
            kinds = []
        # Byzantine sender: well-formed containers around hostile values
        if r.random() < 0.12 and e not in ("sigdecode_strings",
                                            "verify_strings"):
            it["byz"] = r.choice(["scalar", "scalar", "huge_version",
                                  "huge_oid", "huge_int", "zero_point",
                                  "offcurve_point", "no_params", "only_pub",
                                  "empty_scalar", "short_scalar",
                                  "inner_no_params", "deep_pkcs8", "deep_seq",
                                  "empty_oid", "empty_bits", "empty_point",
                                  "trailing_element", "trailing_element"])
            it["byz_v"] = r.randrange(1 << 16)
            kinds = kinds[:r.choice([0, 0, 1])]
        it["faults"] = kinds
        items.append(it)
    return dict(curve=cname, d=d, items=items)


def execute(prog):
    core.lib()
    import ecdsa
    from ecdsa import keys as lk, der as lder, util as lu, ecdh as lecdh
    from ecdsa import curves as lc
    out = core.new_outcome()
    mc = mcurves.by_name(prog["curve"])
    curve = libx.global_lib_curve(mc)
    other_curve = lc.NIST192p if curve is not lc.NIST192p else lc.NIST224p
    sk = lk.SigningKey.from_secret_exponent(prog["d"], curve)
    vk = sk.verifying_key
    KEY_DOC = (lder.UnexpectedDER, lk.MalformedPointError,
               lc.UnknownCurveError)
    DOC = {
        "vk_from_string": (lk.MalformedPointError,),
        "vk_from_der": KEY_DOC, "vk_from_pem": KEY_DOC,
        "sk_from_string": (lk.MalformedPointError,),
        "sk_from_der": KEY_DOC, "sk_from_pem": KEY_DOC,
        "sigdecode_string": (lu.MalformedSignature,),
        "sigdecode_strings": (lu.MalformedSignature,),
        "sigdecode_der": (lder.UnexpectedDER,),
        "verify_string": (lk.BadSignatureError,),
        "verify_strings": (lk.BadSignatureError,),
        "verify_der": (lk.BadSignatureError,),
        "verify_digest_der": (lk.BadSignatureError,),
        "ecdh_priv_bytes": (lk.MalformedPointError,),
        "ecdh_priv_der": KEY_DOC + (lecdh.InvalidCurveError,),
        "ecdh_priv_pem": KEY_DOC + (lecdh.InvalidCurveError,),
        "ecdh_pub_bytes": (lk.MalformedPointError,),
        "ecdh_pub_der": KEY_DOC + (lecdh.InvalidCurveError,),
        "ecdh_pub_pem": KEY_DOC + (lecdh.InvalidCurveError,),
    }
    log = []
    rlog = []
    prev = bytes(vk.to_der())
    for it in prog["items"]:
        out["ops"] += 1
        e = it["entry"]
        rnd = random.Random(it["fseed"])
        enc = it["enc"]
        msg = core.unhx(it["msg"])
        # ---- the valid item
        if e in ("vk_from_string", "ecdh_pub_bytes"):
            data = bytes(vk.to_string(enc))
        elif e in ("vk_from_der", "ecdh_pub_der"):
            data = bytes(vk.to_der(enc if enc != "raw" else "uncompressed"))
        elif e in ("vk_from_pem", "ecdh_pub_pem"):
            data = bytes(vk.to_pem(enc if enc != "raw" else "compressed"))
        elif e in ("sk_from_string", "ecdh_priv_bytes"):
            data = bytes(sk.to_string())
        elif e in ("sk_from_der", "ecdh_priv_der"):
            data = bytes(sk.to_der(enc if enc != "raw" else "uncompressed",
                                   it["fmt"]))
        elif e in ("sk_from_pem", "ecdh_priv_pem"):
            data = bytes(sk.to_pem(enc if enc != "raw" else "hybrid",
                                   it["fmt"]))
        elif e in ("sigdecode_string", "verify_string"):
            data = bytes(sk.sign_deterministic(msg))
        elif e in ("sigdecode_strings", "verify_strings"):
            data = sk.sign_deterministic(msg, sigencode=lu.sigencode_strings)
            data = [bytes(data[0]), bytes(data[1])]
        else:
            data = bytes(sk.sign_deterministic(msg, sigencode=lu.sigencode_der))
        # ---- Byzantine sender
        descr = []
        if it.get("byz") and not isinstance(data, list):
            nd = _byzantine(it, e, mc, prog["d"], data)
            if nd is not None and nd != data:
                data = nd
                descr.append("byzantine " + it["byz"])
                core.bump(out["faults"], "byz_" + it["byz"])
        # ---- faults
        if isinstance(data, list):
            from .c12 import _strings_fault
            for k in it["faults"]:
                k2 = rnd.choice(["drop_one", "add_one", "truncate_r",
                                 "truncate_s", "extend_r", "extend_s", "swap",
                                 "empty_r", "flip_r", "join"])
                nd = _strings_fault(rnd, data, k2)
                if nd != data:
                    descr.append(k2)
                    core.bump(out["faults"], "strings_" + k2)
                data = nd
            shown = [x.hex() for x in data]
        else:
            for k in it["faults"]:
                if k.startswith("pem:"):
                    nd, d_ = world.apply_pem_fault(rnd, data, k[4:])
                else:
                    nd, d_ = world.apply_fault(rnd, data, k, other=prev)
                if nd != data:
                    descr.append(d_)
                    core.bump(out["faults"], k)
                data = nd
            shown = data.hex()
        if descr:
            out["nontrivial"] = True
        log.append((e, shown))
        if isinstance(data, list):
            arg = tuple(data) if it["mv"] else list(data)
        elif e.endswith("_pem"):
            # PEM is documented as text: str or bytes, never a memoryview
            arg = data.decode("latin-1") if it["as_str"] else data
        else:
            # the same bytes as different bytes-like objects (read-only and
            # writable ones)
            kind_ = it.get("buf", "mv" if it["mv"] else "bytes")
            if kind_ == "mvw":
                arg = memoryview(bytearray(data))
            else:
                from .c12 import _as_buffer
                arg = _as_buffer(data, kind_)
        # ---- the call
        def call():
            if e == "vk_from_string":
                return lk.VerifyingKey.from_string(arg, curve)
            if e == "vk_from_der":
                return lk.VerifyingKey.from_der(arg)
            if e == "vk_from_pem":
                return lk.VerifyingKey.from_pem(arg)
            if e == "sk_from_string":
                return lk.SigningKey.from_string(arg, curve)
            if e == "sk_from_der":
                return lk.SigningKey.from_der(arg)
            if e == "sk_from_pem":
                return lk.SigningKey.from_pem(arg)
            if e == "sigdecode_string":
                return lu.sigdecode_string(arg, curve.order)
            if e == "sigdecode_strings":
                return lu.sigdecode_strings(arg, curve.order)
            if e == "sigdecode_der":
                return lu.sigdecode_der(arg, curve.order)
            if e == "verify_string":
                return vk.verify(arg, msg)
            if e == "verify_strings":
                return vk.verify(arg, msg, sigdecode=lu.sigdecode_strings)
            if e == "verify_der":
                return vk.verify(arg, msg, sigdecode=lu.sigdecode_der)
            if e == "verify_digest_der":
                import hashlib
                return vk.verify_digest(arg, hashlib.sha1(msg).digest(),
                                        sigdecode=lu.sigdecode_der,
                                        allow_truncate=True)
            ec_ = {"none": None, "same": curve,
                   "other": other_curve}[it["ecdh_curve"]]
            if e in ("ecdh_priv_bytes", "ecdh_pub_bytes") and ec_ is None:
                ec_ = curve     # byte loaders need a curve (precondition)
            eo = lecdh.ECDH(curve=ec_)
            if e == "ecdh_priv_bytes":
                return eo.load_private_key_bytes(arg) and eo
            if e == "ecdh_priv_der":
                return eo.load_private_key_der(arg) and eo
            if e == "ecdh_priv_pem":
                return eo.load_private_key_pem(arg) and eo
            if e == "ecdh_pub_bytes":
                eo.load_received_public_key_bytes(arg)
                return eo
            if e == "ecdh_pub_der":
                eo.load_received_public_key_der(arg)
                return eo
            eo.load_received_public_key_pem(arg)
            return eo
        try:
            res = world.guarded(call)
        except DOC[e] as dex:
            core.bump(out["probes"], "raised_documented")
            rlog.append((e, type(dex).__name__))
            continue
        except world.CallTimeout:
            out["violation"] = core.violation(
                ID, "terminates", e,
                "%s did not terminate within 20 s on %s [%s]" % (
                    e, str(shown)[:200], "; ".join(descr)))
            return out
        except Exception as ex:
            site = _raising_function(ex)
            if isinstance(ex, ValueError) and "Exceeds the limit" in str(ex):
                site += "/intstrlimit"
            kid = core.match_known(ID, "%s/undocumented/%s-%s-%s" % (
                ID, e, type(ex).__name__, site))
            if kid:
                core.bump(out["known"], kid)
                continue
            out["violation"] = core.violation(
                ID, "undocumented", "%s-%s-%s" % (e, type(ex).__name__, site),
                "%s raised %s(%s) [in %s] on %s  [faults: %s]" % (
                    e, type(ex).__name__, str(ex)[:120], site,
                    str(shown)[:300], "; ".join(descr) or "none"),
                dict(item=it, delivered=shown if isinstance(shown, list)
                     else shown[:2000]))
            return out
        core.bump(out["probes"], "returned_object")
        rlog.append((e, "returned"))
        # ---- usable
        try:
            world.guarded(lambda: _use(e, res, lk, lecdh, msg))
        except Exception as ex:
            out["violation"] = core.violation(
                ID, "usable", "%s-%s" % (e, type(ex).__name__),
                "%s returned an object that is not usable: %s(%s) on %s "
                "[faults: %s]" % (e, type(ex).__name__, ex, str(shown)[:300],
                                  "; ".join(descr) or "none"),
                dict(item=it))
            return out
        if not descr and e.startswith(("verify",)) and res is not True:
            out["violation"] = core.violation(
                ID, "usable", e + "-intact",
                "intact signature did not verify: %r" % (res,))
            return out
    out["digest"] = core.digest_of(log)
    out["rdigest"] = core.digest_of(rlog)
    out["steps"] = out["ops"]       # deliveries
    return out


def _byzantine(it, e, mc, d, data):
    """Hostile but well-formed encodings built with the harness's encoder."""
    from ..model import der as mder
    from ..model import ec
    kind = it["byz"]
    v = it["byz_v"]
    n = mc.n
    L = mc.nlen
    Q = ec.mul(mc, d, mc.G)
    pt = ec.encode_point(mc, Q, "uncompressed")
    huge = (1 << (8 * (2000 + v % 3000))) + v
    pem = e.endswith("_pem")
    priv = e.startswith(("sk_", "ecdh_priv"))
    pub = e.startswith(("vk_", "ecdh_pub"))
    sig = e.startswith(("sigdecode", "verify"))

    def wrap(body, label):
        return mder.pem(body, label) if pem else body
    huge = (1 << (8 * (2000 + v % 3000))) + v
    pem = e.endswith("_pem")
    priv = e.startswith(("sk_", "ecdh_priv"))
    pub = e.startswith(("vk_", "ecdh_pub"))
    sig = e.startswith(("sigdecode", "verify"))

    def wrap(body, label):
        return mder.pem(body, label) if pem else body
    db = d.to_bytes(L, "big")
    structural = not e.endswith(("string", "bytes"))
    if kind in ("no_params", "only_pub", "empty_scalar", "short_scalar",
                "inner_no_params") and priv and structural:
        # optional fields left out / fields present but empty: all of it
        # well-formed DER
        if kind == "empty_scalar":
            db2 = b""
        elif kind == "short_scalar":
            db2 = db.lstrip(b"\x00")[: max(1, L - 1 - v % 3)] or b"\x01"
        else:
            db2 = db
        parts = [mder.enc_int(1), mder.enc_octets(db2)]
        if kind in ("empty_scalar", "short_scalar"):
            parts.append(mder.enc_ctx(0, mder.enc_oid(mc.oid)))
        if kind == "only_pub" or (kind in ("empty_scalar",) and v % 2):
            parts.append(mder.enc_ctx(1, mder.enc_bits(pt, 0)))
        inner = mder.enc_seq(*parts)
        if it["fmt"] == "ssleay" and kind != "inner_no_params":
            return wrap(inner, "EC PRIVATE KEY")
        return wrap(mder.enc_seq(
            mder.enc_int(v % 2),
            mder.enc_seq(mder.enc_oid(mder.OID_EC_PUBLIC_KEY),
                         mder.enc_oid(mc.oid)),
            mder.enc_octets(inner)), "PRIVATE KEY")
    if kind == "trailing_element" and (priv or pub) and structural:
        # a well-formed outer structure (consistent lengths) whose content
        # ends with an extra, possibly truncated, element
        tagb = [0xBF, 0xA0, 0xA1, 0xBF, 0x9F, 0x1F, 0xDF, 0xFF, 0x30, 0x04,
                0x03, 0x02, 0x06, 0xBE, 0xA2, 0x7F][v % 16]
        tail = [bytes([tagb]), bytes([tagb]), bytes([tagb]), bytes([tagb, 0]),
                bytes([tagb, 0x80]), bytes([tagb, 0x81]), bytes([tagb, 1, 0]),
                bytes([tagb, 0x82, 0, 1, 0])][(v >> 4) % 8]
        if priv:
            where = [0, 0, 1, 2][(v >> 8) % 4]
            parts = [mder.enc_int(1), mder.enc_octets(db)]
            if where >= 1:
                parts.append(mder.enc_ctx(0, mder.enc_oid(mc.oid)))
            if where >= 2:
                parts.append(mder.enc_ctx(1, mder.enc_bits(pt, 0)))
            inner = mder.tlv(0x30, b"".join(parts) + tail)
            if it["fmt"] == "ssleay":
                return wrap(inner, "EC PRIVATE KEY")
            return wrap(mder.enc_seq(
                mder.enc_int(1),
                mder.enc_seq(mder.enc_oid(mder.OID_EC_PUBLIC_KEY),
                             mder.enc_oid(mc.oid)),
                mder.enc_octets(inner)), "PRIVATE KEY")
        alg = mder.enc_seq(mder.enc_oid(mder.OID_EC_PUBLIC_KEY),
                           mder.enc_oid(mc.oid))
        return wrap(mder.tlv(0x30, alg + mder.enc_bits(pt, 0) + tail)
                    if v % 2 else
                    mder.tlv(0x30, mder.tlv(0x30, alg[2:] + tail)
                             + mder.enc_bits(pt, 0)), "PUBLIC KEY")
    if kind == "deep_pkcs8" and priv and structural:
        depth = [3, 40, 400, 1500, 2500][v % 5]
        body = mder.ec_private_key(mc.oid, db, pt)
        alg = mder.enc_seq(mder.enc_oid(mder.OID_EC_PUBLIC_KEY),
                           mder.enc_oid(mc.oid))
        for _ in range(depth):
            body = mder.enc_seq(mder.enc_int(1), alg, mder.enc_octets(body))
        return wrap(body, "PRIVATE KEY")
    if kind == "deep_seq" and structural and (priv or pub or "der" in e):
        depth = [3, 40, 400, 1500, 2500][v % 5]
        body = bytes(data) if not pem else b"\x02\x01\x01"
        tag = [0x30, 0x04, 0xA0, 0x03][(v >> 3) % 4]
        for _ in range(depth):
            body = mder.tlv(tag, (b"\x00" if tag == 0x03 else b"") + body)
        return wrap(body, "PRIVATE KEY" if priv else "PUBLIC KEY") \
            if (priv or pub) else body
    if kind in ("empty_oid", "empty_bits", "empty_point") and pub \
            and structural:
        alg = mder.enc_seq(
            mder.enc_oid(mder.OID_EC_PUBLIC_KEY),
            mder.tlv(0x06, b"") if kind == "empty_oid"
            else mder.enc_oid(mc.oid))
        if kind == "empty_bits":
            bits = mder.tlv(0x03, b"")
        elif kind == "empty_point":
            bits = mder.enc_bits(b"", 0)
        else:
            bits = mder.enc_bits(pt, 0)
        return wrap(mder.enc_seq(alg, bits), "PUBLIC KEY")
    if kind == "scalar" and priv:
        dv = [0, n, n + 1, (1 << (8 * L)) - 1, n - 1, 1][v % 6]
        db = dv.to_bytes(L, "big")
        if e in ("sk_from_string", "ecdh_priv_bytes"):
            return db
        if it["fmt"] == "ssleay":
            return wrap(mder.ec_private_key(mc.oid, db, pt), "EC PRIVATE KEY")
        return wrap(mder.pkcs8(mc.oid, db, pt), "PRIVATE KEY")
    if kind == "huge_version" and priv and not e.endswith(("string", "bytes")):
        inner = mder.enc_seq(mder.enc_int(huge),
                             mder.enc_octets(d.to_bytes(L, "big")),
                             mder.enc_ctx(0, mder.enc_oid(mc.oid)))
        if it["fmt"] == "ssleay" or v % 2:
            return wrap(inner, "EC PRIVATE KEY")
        return wrap(mder.enc_seq(
            mder.enc_int(huge),
            mder.enc_seq(mder.enc_oid(mder.OID_EC_PUBLIC_KEY),
                         mder.enc_oid(mc.oid)),
            mder.enc_octets(mder.ec_private_key(mc.oid, d.to_bytes(L, "big"),
                                                pt))), "PRIVATE KEY")
    if kind == "huge_oid" and (pub or priv) and \
            not e.endswith(("string", "bytes")):
        bad_oid = tuple(mc.oid[:-1]) + (huge,)
        alg = mder.OID_EC_PUBLIC_KEY if v % 2 else \
            tuple(mder.OID_EC_PUBLIC_KEY[:-1]) + (huge,)
        cur = bad_oid if v % 2 else mc.oid
        if pub:
            return wrap(mder.enc_seq(
                mder.enc_seq(mder.enc_oid(alg), mder.enc_oid(cur)),
                mder.enc_bits(pt, 0)), "PUBLIC KEY")
        if it["fmt"] == "ssleay":
            return wrap(mder.ec_private_key(bad_oid, d.to_bytes(L, "big"),
                                            pt), "EC PRIVATE KEY")
        return wrap(mder.enc_seq(
            mder.enc_int(1),
            mder.enc_seq(mder.enc_oid(alg), mder.enc_oid(cur)),
            mder.enc_octets(mder.ec_private_key(mc.oid, d.to_bytes(L, "big"),
                                                pt))), "PRIVATE KEY")
    if kind == "huge_int" and sig and "der" in e:
        return mder.enc_sig(huge, 1 + v % (n - 1)) if v % 2 else \
            mder.enc_sig(1 + v % (n - 1), huge)
    if kind in ("zero_point", "offcurve_point") and pub:
        P = mc.plen
        if kind == "zero_point":
            raw = bytes(2 * P)
        else:
            raw = ((Q[0] + 1) % mc.p).to_bytes(P, "big") + \
                Q[1].to_bytes(P, "big")
        if e in ("vk_from_string", "ecdh_pub_bytes"):
            return raw if v % 2 else b"\x04" + raw
        return wrap(mder.spki(mc.oid, b"\x04" + raw), "PUBLIC KEY")
    return None


def _use(e, res, lk, lecdh, msg):
    if e.startswith("vk_"):
        res.to_string()
        res.to_der()
        res.pubkey.point.x()
    elif e.startswith("sk_"):
        res.to_string()
        res.to_der()
        sig = res.sign_deterministic(b"use")
        assert res.verifying_key.verify(sig, b"use") is True
    elif e.startswith("sigdecode"):
        r_, s_ = res
        int(r_), int(s_)
    elif e.startswith("verify"):
        if res is not True:
            raise ValueError("verify returned %r" % (res,))
    elif e.startswith("ecdh_priv"):
        res.get_public_key().to_string()
    elif e.startswith("ecdh_pub"):
        res.public_key.to_string()


def _raising_function(ex):
    """Name of the innermost library function on the traceback."""
    tb = ex.__traceback__
    name = "?"
    while tb is not None:
        fn = tb.tb_frame.f_code.co_filename
        if "/ecdsa/" in fn:
            name = tb.tb_frame.f_code.co_name
        tb = tb.tb_next
    return name
