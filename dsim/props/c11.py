"""C11 - DER codecs: round trip; a decoder accepts only canonical DER.

Single TLVs produced by the library's own encoders are stored / sent through
the faulty channel (truncation at every offset, length tampering, flips,
splices ...) and handed to the matching decoder.  Oracle: fault-free round
trip; on damaged input either UnexpectedDER, or acceptance of a canonical
encoding lying within the buffer (checked with the model's strict encoder).
"""
import random

from .. import core, world
from ..model import der as mder

ID = "C11"
LEVEL = "exploration"
# a run stuck inside C code (beyond the reach of a Python signal handler) is
# cut off by a watchdog thread after this many seconds (core._hard_hangs)
RUN_HARD_TIMEOUT = 120
RULE = ("each run = 6-14 TLV items (INTEGER, length, OID, BIT STRING, OCTET "
        "STRING, SEQUENCE, context-constructed, base-128 number) encoded by "
        "the library, followed by a seeded tail, delivered intact or after "
        "1-2 seeded store/channel faults; non-trivial = >= 1 fault fired and "
        "changed the bytes; distinct = distinct sha256 of the delivered "
        "(decoder, bytes) list")
COMPONENTS_REAL = ["ecdsa.der encoders and decoders"]
COMPONENTS_STUB = ["store/channel between encoder and decoder (fault "
                   "injector)", "oracle: dsim/model/der.py strict codec"]
ASSUMPTIONS = ["model DER codec implements X.690 DER for these types",
               "short inputs are covered densely by seeded faults, not "
               "exhaustively"]
SHRINK = [["items"]]
REQUIRED_PROBES = {"quick": ["accepted_after_fault", "rejected_after_fault"],
                   "thorough": ["accepted_after_fault", "rejected_after_fault"]}

# read_number/encode_number (the OID sub-identifier helper) is exercised only
# through remove_object/encode_oid: the property lists the seven pairs below
TYPES = ["integer", "length", "oid", "bitstring", "octet", "sequence",
         "constructed"]


def budget(tier):
    if tier == "quick":
        return dict(runs=250000, wall=60, chunk=2000)
    return dict(runs=6000000, wall=700, chunk=4000)


def _int_value(r):
    c = r.randrange(8)
    if c == 0:
        return r.choice([0, 1, 127, 128, 255, 256, 32767, 32768, 65535, 65536])
    if c == 1:
        return (1 << r.randrange(1, 600)) + r.choice([-1, 0, 1])
    if c == 2:
        return r.getrandbits(r.choice([8, 16, 64, 160, 256, 521]))
    if c == 3:
        return r.getrandbits(r.randrange(1, 40))
    if c == 4:
        # exactly 127/128-byte bodies: long-form length boundary
        return r.getrandbits(r.choice([1007, 1015, 1016, 1023, 1024, 2040])) | 1
    return r.randrange(0, 1 << r.randrange(1, 70))


def _body(r):
    c = r.random()
    if c < 0.45:
        ln = r.choice([0, 1, 1, 2, 2, 3, 4, 5])
    elif c < 0.9:
        ln = r.choice([16, 32, 65, 126, 127, 128, 129, 255, 256, 257, 300])
    else:
        ln = r.choice([65535, 65536])
    return r.randbytes(ln)


def _oid(r):
    first = r.choice([0, 1, 2])
    if first < 2:
        second = r.choice([0, 1, 39, r.randrange(40)])
    else:
        second = r.choice([0, 1, 39, 40, 47, 48, 127, 128, 999,
                           r.randrange(1 << 20)])
    rest = []
    for _ in range(r.randrange(0, 7)):
        rest.append(r.choice([0, 1, 127, 128, 255, 16383, 16384, 840, 10045,
                              r.getrandbits(r.randrange(1, 40))]))
    if r.random() < 0.04:
        # arcs far beyond machine words and beyond float range
        big = (1 << r.choice([64, 128, 1024, 1030, 1100, 2000])) + \
            r.getrandbits(16)
        if first == 2 and r.random() < 0.5:
            second = big
        else:
            rest.append(big)
    return [first, second] + rest


def _v(it):
    return core.unhx(it["v"]) * it.get("rep", 1)


def gen_item(r):
    t = r.choice(TYPES)
    it = dict(type=t, fseed=r.getrandbits(32), mv=r.random() < 0.4)
    if t == "integer":
        it["v"] = _int_value(r)
    elif t == "length":
        it["v"] = r.choice([0, 1, 127, 128, 255, 256, 65535, 65536,
                            r.getrandbits(r.randrange(1, 33))])
    elif t == "number":
        it["v"] = r.choice([0, 1, 127, 128, 16383, 16384,
                            r.getrandbits(r.randrange(1, 64))])
    elif t == "oid":
        it["v"] = _oid(r)
    elif t == "bitstring":
        body = _body(r)
        unused = r.randrange(8) if body else 0
        if unused and body:
            body = body[:-1] + bytes([body[-1] & (0xFF << unused) & 0xFF])
        it["v"] = core.hx(body)
        it["unused"] = unused
        it["expect"] = r.choice(["none", "none", "match", "match", "other"])
    elif t in ("octet", "sequence"):
        it["v"] = core.hx(_body(r))
    elif t == "constructed":
        it["v"] = core.hx(_body(r))
        it["tag"] = r.choice([0, 1, 2, 3, 30, 31, r.randrange(32)])
    it["tail"] = core.hx(r.randbytes(r.choice([0, 0, 1, 2, 5]))
                         if r.random() < 0.8 else b"\x30\x00")
    nf = r.choice([0, 1, 1, 1, 2])
    kinds = []
    for _ in range(nf):
        kinds.append(r.choice(["truncate", "truncate", "len_tamper",
                               "len_tamper", "flip", "set", "delete", "insert",
                               "extend", "dup", "splice", "empty", "inc_byte",
                               "zero_fill", "nest"]))
    it["faults"] = kinds
    if t in ("octet", "sequence", "constructed", "bitstring") and \
            r.random() < 0.0006:
        # a body that needs a 3- / 4-octet length (one byte repeated, so the
        # program stays small); delivered intact
        it["v"] = core.hx(bytes([r.randrange(256)]))
        it["rep"] = r.choice([(1 << 16) + 1, (1 << 24) - 1, 1 << 24,
                              (1 << 24) + 1])
        it["unused"] = 0
        it["faults"] = []
        it["tail"] = ""
    return it


def generate(run_seed, tier):
    r = core.rng(run_seed, "ops")
    return dict(items=[gen_item(r) for _ in range(r.randrange(6, 15))])


def encode_item(lder, it):
    t = it["type"]
    if t == "integer":
        return lder.encode_integer(it["v"])
    if t == "length":
        return lder.encode_length(it["v"])
    if t == "number":
        return lder.encode_number(it["v"])
    if t == "oid":
        return lder.encode_oid(*it["v"])
    if t == "bitstring":
        return lder.encode_bitstring(_v(it), it["unused"])
    if t == "octet":
        return lder.encode_octet_string(_v(it))
    if t == "sequence":
        return lder.encode_sequence(_v(it))
    if t == "constructed":
        return lder.encode_constructed(it["tag"], _v(it))
    raise ValueError(t)


def model_encode(it):
    t = it["type"]
    if t == "integer":
        return mder.enc_int(it["v"])
    if t == "length":
        return mder.enc_len(it["v"])
    if t == "number":
        return mder.enc_arc(it["v"])
    if t == "oid":
        return mder.enc_oid(it["v"])
    if t == "bitstring":
        return mder.enc_bits(_v(it), it["unused"])
    if t == "octet":
        return mder.enc_octets(_v(it))
    if t == "sequence":
        return mder.tlv(0x30, _v(it))
    if t == "constructed":
        return mder.tlv(0xA0 + it["tag"], _v(it))


def decode(lder, it, data):
    """Call the matching decoder.  Returns (value, consumed_len, canon) where
    canon is the model's canonical encoding of the decoded value."""
    t = it["type"]
    n = len(data)
    if t == "integer":
        v, rest = lder.remove_integer(data)
        return ("int", v), bytes(rest), mder.enc_int(v)
    if t == "length":
        v, llen = lder.read_length(data)
        return ("len", v), bytes(data[llen:]), mder.enc_len(v)
    if t == "number":
        v, llen = lder.read_number(data)
        return ("num", v), bytes(data[llen:]), mder.enc_arc(v)
    if t == "oid":
        v, rest = lder.remove_object(data)
        return ("oid", list(v)), bytes(rest), mder.enc_oid(v)
    if t == "bitstring":
        ex = it["expect"]
        if ex == "none":
            (body, unused), rest = lder.remove_bitstring(data, None)
        else:
            want = it["unused"] if ex == "match" else (it["unused"] + 1) % 8
            body, rest = lder.remove_bitstring(data, want)
            unused = want
        return ("bits", bytes(body).hex(), unused), bytes(rest), \
            mder.enc_bits(bytes(body), unused)
    if t == "octet":
        body, rest = lder.remove_octet_string(data)
        return ("octet", bytes(body).hex()), bytes(rest), \
            mder.enc_octets(bytes(body))
    if t == "sequence":
        body, rest = lder.remove_sequence(data)
        return ("seq", bytes(body).hex()), bytes(rest), \
            mder.tlv(0x30, bytes(body))
    if t == "constructed":
        tag, body, rest = lder.remove_constructed(data)
        return ("ctx", tag, bytes(body).hex()), bytes(rest), \
            mder.tlv(0xA0 + tag, bytes(body))
    raise ValueError(t)


def expected_value(it):
    t = it["type"]
    if t == "integer":
        return ("int", it["v"])
    if t == "length":
        return ("len", it["v"])
    if t == "number":
        return ("num", it["v"])
    if t == "oid":
        return ("oid", list(it["v"]))
    v = it["v"] if "rep" not in it else _v(it).hex()
    if t == "bitstring":
        return ("bits", v, it["unused"])
    if t == "octet":
        return ("octet", v)
    if t == "sequence":
        return ("seq", v)
    return ("ctx", it["tag"], v)


def execute(prog):
    core.lib()
    from ecdsa import der as lder
    out = core.new_outcome()
    delivered_log = []
    prev = b"\x30\x03\x02\x01\x05"
    for idx, it in enumerate(prog["items"]):
        out["ops"] += 1
        t = it["type"]
        try:
            enc = bytes(encode_item(lder, it))
        except Exception as e:
            out["violation"] = core.violation(
                ID, "encode", "%s-%s" % (t, type(e).__name__),
                "encoder for %s raised %r on a value in its domain" % (t, e),
                dict(item=it))
            return out
        want_enc = model_encode(it)
        if enc != want_enc:
            out["violation"] = core.violation(
                ID, "encode", t + "-bytes",
                "library encoding %s differs from canonical DER %s" % (
                    enc.hex()[:200], want_enc.hex()[:200]), dict(item=it))
            return out
        tail = core.unhx(it["tail"])
        data = enc + tail
        r = random.Random(it["fseed"])
        descr = []
        for k in it["faults"]:
            nd, d = world.apply_fault(r, data, k, other=prev)
            if nd != data:
                core.bump(out["faults"], k)
                descr.append(d)
            data = nd
        prev = enc
        faulted = bool(descr)
        arg = memoryview(data) if it.get("mv") else data
        delivered_log.append((t, data.hex()))
        try:
            val, rest, canon = decode(lder, it, arg)
            accepted = True
        except lder.UnexpectedDER:
            accepted = False
        except Exception as e:
            out["violation"] = core.violation(
                ID, "exception", "%s-%s" % (t, type(e).__name__),
                "decoder for %s raised %s(%s) on %s [%s]" % (
                    t, type(e).__name__, e, data.hex()[:120],
                    "; ".join(descr) or "intact"),
                dict(item=it, delivered=data.hex()[:400]))
            return out
        if not faulted:
            # intact delivery: exact round trip (a mismatching expect_unused
            # must be refused)
            if t == "bitstring" and it["expect"] == "other":
                if accepted:
                    out["violation"] = core.violation(
                        ID, "roundtrip", "bitstring-unused-mismatch",
                        "BIT STRING with %d unused bits accepted when %d "
                        "were demanded" % (it["unused"],
                                           (it["unused"] + 1) % 8))
                    return out
                continue
            if not accepted:
                out["violation"] = core.violation(
                    ID, "roundtrip", t + "-rejected",
                    "decoder rejected the library's own encoding %s"
                    % data.hex()[:200], dict(item=it))
                return out
            if val != expected_value(it) or rest != tail:
                out["violation"] = core.violation(
                    ID, "roundtrip", t,
                    "decode(encode(v)+tail) = (%r, %s), want (%r, %s)" % (
                        val, rest.hex(), expected_value(it), tail.hex()),
                    dict(item=it))
                return out
            continue
        out["nontrivial"] = True
        if not accepted:
            core.bump(out["probes"], "rejected_after_fault")
            # rejecting is always allowed for a *damaged* item unless the
            # damage left a canonical encoding in place
            ok_model = _model_accepts(it, data)
            if ok_model:
                out["violation"] = core.violation(
                    ID, "canonical", t + "-rejects-canonical",
                    "decoder rejected %s which is canonical DER [%s]" % (
                        data.hex()[:200], "; ".join(descr)),
                    dict(item=it, delivered=data.hex()[:400]))
                return out
            continue
        core.bump(out["probes"], "accepted_after_fault")
        if not _model_accepts(it, data):
            out["violation"] = core.violation(
                ID, "canonical", t + "-strict-decoder-rejects",
                "accepted %s as %r, but an independent strict DER decoder "
                "rejects it (non-canonical) [%s]" % (
                    data.hex()[:200], val, "; ".join(descr)),
                dict(item=it, delivered=data.hex()[:400]))
            return out
        consumed_len = len(data) - len(rest)
        if consumed_len < 0 or data[consumed_len:] != rest:
            out["violation"] = core.violation(
                ID, "canonical", t + "-remainder",
                "accepted %s but the returned remainder %s is not the "
                "unconsumed suffix [%s]" % (data.hex()[:200], rest.hex()[:80],
                                           "; ".join(descr)),
                dict(item=it, delivered=data.hex()[:400]))
            return out
        consumed = data[:consumed_len]
        if canon != consumed:
            why = "declared length exceeds the bytes present" \
                if len(canon) < len(consumed) or _overrun(consumed) else \
                "not the canonical encoding"
            out["violation"] = core.violation(
                ID, "canonical", t + ("-overrun" if "exceeds" in why
                                      else "-noncanonical"),
                "accepted %s as %r, but re-encoding gives %s: %s [%s]" % (
                    data.hex()[:200], val, canon.hex()[:200], why,
                    "; ".join(descr)),
                dict(item=it, delivered=data.hex()[:400]))
            return out
    out["digest"] = core.digest_of(delivered_log)
    out["steps"] = out["ops"]       # deliveries
    return out


def _overrun(consumed):
    try:
        tag, ln, hl = mder.read_tl(consumed)
        return hl + ln > len(consumed)
    except mder.DERError:
        return False


def _model_accepts(it, data):
    """Does the model's strict decoder accept a TLV of this type at the start
    of `data`?"""
    t = it["type"]
    try:
        if t == "integer":
            mder.dec_int(data)
        elif t == "length":
            if not data:
                return False
            b0 = data[0]
            if b0 < 0x80:
                return True
            ll = b0 & 0x7F
            if ll == 0 or len(data) < 1 + ll or data[1] == 0:
                return False
            return int.from_bytes(data[1:1 + ll], "big") >= 0x80
        elif t == "number":
            if not data or data[0] == 0x80:
                return False
            for b in data:
                if not b & 0x80:
                    return True
            return False
        elif t == "oid":
            mder.dec_oid(data)
        elif t == "bitstring":
            (bits, unused), _ = mder.dec_bits(data)
            ex = it["expect"]
            if ex == "match" and unused != it["unused"]:
                return False
            if ex == "other" and unused != (it["unused"] + 1) % 8:
                return False
        elif t == "octet":
            mder.dec_octets(data)
        elif t == "sequence":
            mder.dec_seq(data)
        elif t == "constructed":
            mder.dec_ctx(data)
        return True
    except mder.DERError:
        return False
