"""C12 - signature encodings are bijective, fixed-size and strictly decoded.

(r, s) pairs for a seeded order are encoded with each of the three encoders,
sent through the faulty channel and decoded with the matching decoder.
"""
import random

from .. import core, world
from ..model import curves as mcurves
from ..model import der as mder

ID = "C12"
LEVEL = "exploration"
# a run stuck inside C code (beyond the reach of a Python signal handler) is
# cut off by a watchdog thread after this many seconds (core._hard_hangs)
RUN_HARD_TIMEOUT = 120
RULE = ("each run = one order n (17 curve orders, toy orders, seeded n >= 2, "
        "byte-aligned or not) and 6-12 (r, s) pairs with boundary bias, each "
        "encoded with sigencode_string / _strings / _der and delivered intact "
        "or after 1-2 seeded channel faults to the matching decoder; "
        "non-trivial = >= 1 fault changed the bytes; distinct = distinct "
        "sha256 of the delivered (format, bytes) list")
COMPONENTS_REAL = ["ecdsa.util sigencode_* / sigdecode_*, number_to_string, "
                   "string_to_number(_fixedlen), orderlen", "ecdsa.der as "
                   "reached"]
COMPONENTS_STUB = ["channel between encoder and decoder (fault injector)",
                   "oracle: model strict Ecdsa-Sig-Value codec + big-endian "
                   "fixed-length arithmetic"]
ASSUMPTIONS = ["model DER codec is strict X.690 DER"]
HISTORY_DIFF = {"quick": 120, "thorough": 1000}
SHRINK = [["items"]]
REQUIRED_PROBES = {"quick": ["raw_len_rejected", "der_rejected",
                             "der_accepted_after_fault"],
                   "thorough": ["raw_len_rejected", "der_rejected",
                                "der_accepted_after_fault"]}


def budget(tier):
    if tier == "quick":
        return dict(runs=400000, wall=60, chunk=2000)
    return dict(runs=9000000, wall=700, chunk=4000)


def _order(r):
    if r.random() < 0.04:
        # orders so large that the DER lengths of the integers and of the
        # sequence go long-form (>= 128 / >= 256 bytes)
        bits = r.choice([984, 992, 1000, 1008, 1016, 1017, 1023, 1024, 1025,
                         2040, 2048, 2100])
        return r.getrandbits(bits) | (1 << (bits - 1)) | 1
    c = r.randrange(6)
    if c == 0:
        return r.choice(mcurves.named()).n
    if c == 1:
        return r.choice(mcurves.toy()).n
    if c == 2:
        return r.choice([2, 3, 255, 256, 257, 65535, 65536, 65537,
                         (1 << 64) - 1, 1 << 64, (1 << 64) + 13])
    if c == 3:
        bits = r.choice([7, 8, 9, 15, 16, 17, 63, 64, 65, 127, 128, 129, 160,
                         161, 255, 256, 257, 520, 521, 522])
        return max(2, r.getrandbits(bits) | (1 << (bits - 1)))
    return max(2, r.getrandbits(r.randrange(2, 530)))


def _val(r, n):
    L = (max(n.bit_length(), 1) + 7) // 8
    c = r.randrange(9)
    if c == 0:
        return r.choice([0, 1, 127, 128, 255, 256, n - 1, max(0, n - 2)]) % n
    if c == 1:
        # leading zero byte(s)
        return r.randrange(0, max(1, min(n, 1 << (8 * max(L - 1, 0)))))
    if c == 2:
        # top bit of the top byte set (needs DER sign padding)
        v = r.randrange(0, n)
        bl = max(v.bit_length(), 1)
        v |= 1 << (((bl + 7) // 8) * 8 - 1)
        return v % n
    if c == 3:
        return r.randrange(0, min(n, 128))
    return r.randrange(0, n)


def generate(run_seed, tier):
    r = core.rng(run_seed, "ops")
    n = _order(r)
    items = []
    for _ in range(r.randrange(6, 13)):
        fmt = r.choice(["string", "strings", "der"])
        nf = r.choice([0, 1, 1, 1, 2])
        if fmt == "der":
            kinds = [r.choice(["truncate", "len_tamper", "len_tamper", "flip",
                               "set", "insert", "delete", "extend", "extend",
                               "dup", "splice", "empty", "inc_byte",
                               "zero_fill", "nest", "swap_halves"])
                     for _ in range(nf)]
        elif fmt == "string":
            kinds = [r.choice(["truncate", "extend", "insert", "delete", "dup",
                               "empty", "flip", "set", "swap_halves",
                               "splice"]) for _ in range(nf)]
        else:
            kinds = [r.choice(["drop_one", "add_one", "truncate_r",
                               "truncate_s", "extend_r", "extend_s", "swap",
                               "empty_r", "flip_r", "join"])
                     for _ in range(nf)]
        bad = None
        if r.random() < 0.12:
            # a failed call (wrong type / out of domain order) made by another
            # part of the program, and a call for an unrelated order, before
            # this item: neither may influence it
            bad = dict(kind=r.choice(["float", "none", "str", "neg", "zero",
                                      "other"]),
                       fn=r.choice(["orderlen", "encode", "decode",
                                    "number_to_string"]),
                       n2=max(2, r.getrandbits(r.choice([5, 9, 17, 70, 200,
                                                         521, 1030]))))
        items.append(dict(fmt=fmt, r=_val(r, n), s=_val(r, n), faults=kinds,
                          bad=bad,
                          fseed=r.getrandbits(32), mv=r.random() < 0.3,
                          buf=r.choice(["bytes", "bytes", "bytes", "mv",
                                        "bytearray", "arrayB", "arrayH",
                                        "mvH", "arrayI", "arrayb", "mvb",
                                        "mvc"])))
    return dict(order=n, items=items)


def _bad_call(lu, bad, n, r_, s_):
    n2 = bad["n2"]
    arg = {"float": float(n) if n < (1 << 900) else 13.0,
           "none": None, "str": str(n), "neg": -n, "zero": 0,
           "other": n2}[bad["kind"]]
    for order in (n2, arg):
        try:
            if bad["fn"] == "orderlen":
                lu.orderlen(order)
            elif bad["fn"] == "encode":
                lu.sigencode_string(r_, s_, order)
            elif bad["fn"] == "decode":
                lu.sigdecode_string(b"\x01\x02", order)
            else:
                lu.number_to_string(r_, order)
        except Exception:
            pass


def execute(prog):
    core.lib()
    from ecdsa import util as lu, der as lder
    out = core.new_outcome()
    n = prog["order"]
    L = (max(n.bit_length(), 1) + 7) // 8
    log = []
    rlog = []
    # helper functions: mutually inverse and length-exact
    try:
        if lu.orderlen(n) != L:
            out["violation"] = core.violation(
                ID, "helpers", "orderlen", "orderlen(%d) = %d, want %d" % (
                    n, lu.orderlen(n), L))
            return out
    except Exception as e:
        out["violation"] = core.violation(
            ID, "helpers", "orderlen-" + type(e).__name__, repr(e))
        return out
    prev = b""
    for it in prog["items"]:
        out["ops"] += 1
        r_, s_ = it["r"] % n, it["s"] % n
        fmt = it["fmt"]
        rnd = random.Random(it["fseed"])
        if it.get("bad"):
            _bad_call(lu, it["bad"], n, r_, s_)
            core.bump(out["faults"], "failed_call_" + it["bad"]["kind"])
        want_r = r_.to_bytes(L, "big")
        want_s = s_.to_bytes(L, "big")
        try:
            nr = bytes(lu.number_to_string(r_, n))
            if nr != want_r:
                out["violation"] = core.violation(
                    ID, "helpers", "number_to_string",
                    "number_to_string(%d, %d) = %s, want %s" % (
                        r_, n, nr.hex(), want_r.hex()))
                return out
            if lu.string_to_number(nr) != r_ or \
                    lu.string_to_number_fixedlen(nr, n) != r_:
                out["violation"] = core.violation(
                    ID, "helpers", "string_to_number",
                    "string_to_number(number_to_string(%d)) differs" % r_)
                return out
            if fmt == "string":
                enc = bytes(lu.sigencode_string(r_, s_, n))
                want = want_r + want_s
            elif fmt == "strings":
                e2 = lu.sigencode_strings(r_, s_, n)
                enc = (bytes(e2[0]), bytes(e2[1]))
                want = (want_r, want_s)
                if len(e2) != 2:
                    enc = tuple(bytes(x) for x in e2)
            else:
                enc = bytes(lu.sigencode_der(r_, s_, n))
                want = mder.enc_sig(r_, s_)
        except Exception as e:
            out["violation"] = core.violation(
                ID, "encode", "%s-%s" % (fmt, type(e).__name__),
                "encoder %s raised %r for r=%d s=%d n=%d" % (fmt, e, r_, s_, n))
            return out
        if enc != want:
            out["violation"] = core.violation(
                ID, "encode", fmt + "-bytes",
                "sigencode_%s(%d, %d, %d) = %r, want %r" % (
                    fmt, r_, s_, n, enc, want))
            return out
        # ---- channel
        descr = []
        if fmt == "strings":
            data = list(enc)
            for k in it["faults"]:
                before = list(data)
                data = _strings_fault(rnd, data, k)
                if data != before:
                    descr.append(k)
                    core.bump(out["faults"], "strings_" + k)
            arg = [_as_buffer(x, it.get("buf", "bytes")) for x in data]
            if rnd.random() < 0.5:
                arg = tuple(arg)
            log.append((fmt, [x.hex() for x in data]))
        else:
            data = enc
            for k in it["faults"]:
                nd, d = world.apply_fault(rnd, data, k, other=prev)
                if nd != data:
                    descr.append(d)
                    core.bump(out["faults"], k)
                data = nd
            prev = enc
            arg = _as_buffer(data, it.get("buf", "bytes"))
            log.append((fmt, data.hex()))
        faulted = bool(descr)
        if faulted:
            out["nontrivial"] = True
        dec = {"string": lu.sigdecode_string, "strings": lu.sigdecode_strings,
               "der": lu.sigdecode_der}[fmt]
        doc_exc = lu.MalformedSignature if fmt != "der" else lder.UnexpectedDER
        try:
            got = dec(arg, n)
            got = (int(got[0]), int(got[1]))
            accepted = True
        except doc_exc:
            accepted = False
        except Exception as e:
            out["violation"] = core.violation(
                ID, "exception", "%s-%s" % (fmt, type(e).__name__),
                "sigdecode_%s raised %s(%s) on %r [%s]" % (
                    fmt, type(e).__name__, e, _show(data),
                    "; ".join(descr) or "intact"))
            return out
        # ---- oracle
        if fmt == "string":
            should = len(data) == 2 * L
            exp = (int.from_bytes(data[:L], "big"),
                   int.from_bytes(data[L:], "big")) if should else None
            if not should:
                core.bump(out["probes"], "raw_len_rejected")
        elif fmt == "strings":
            should = len(data) == 2 and all(len(x) == L for x in data)
            exp = (int.from_bytes(data[0], "big"),
                   int.from_bytes(data[1], "big")) if should else None
            if not should:
                core.bump(out["probes"], "raw_len_rejected")
        else:
            try:
                exp = mder.dec_sig(data)
                should = True
                if faulted:
                    core.bump(out["probes"], "der_accepted_after_fault")
            except mder.DERError:
                should = False
                exp = None
                core.bump(out["probes"], "der_rejected")
        rlog.append((fmt, accepted, list(got) if accepted else None))
        if accepted != should:
            out["violation"] = core.violation(
                ID, "strict", "%s-%s" % (fmt, "accepts" if accepted
                                         else "rejects"),
                "sigdecode_%s %s %r (order %d bits, L=%d) but must %s it [%s]"
                % (fmt, "accepted" if accepted else "rejected", _show(data),
                   n.bit_length(), L, "accept" if should else "reject",
                   "; ".join(descr) or "intact"))
            return out
        if accepted and got != exp:
            out["violation"] = core.violation(
                ID, "inverse", fmt,
                "sigdecode_%s(%r) = %r, want %r" % (fmt, _show(data), got, exp))
            return out
        if accepted and not faulted and got != (r_, s_):
            out["violation"] = core.violation(
                ID, "inverse", fmt + "-roundtrip",
                "decode(encode(%d, %d)) = %r" % (r_, s_, got))
            return out
        if accepted:
            # uniqueness: re-encoding what was decoded reproduces the
            # delivered bytes (only when the values fit the fixed length)
            try:
                if fmt == "der":
                    re = bytes(lu.sigencode_der(got[0], got[1], n))
                    same = re == data
                elif fmt == "string":
                    re = bytes(lu.sigencode_string(got[0], got[1], n)) \
                        if max(got) < (1 << (8 * L)) else data
                    same = re == data
                else:
                    re = lu.sigencode_strings(got[0], got[1], n)
                    same = [bytes(x) for x in re] == list(data)
            except Exception as e:
                same = True if max(got) >= n else False
                if not same:
                    out["violation"] = core.violation(
                        ID, "unique", fmt + "-reencode-" + type(e).__name__,
                        "re-encoding the decoded pair raised %r" % (e,))
                    return out
            if not same:
                out["violation"] = core.violation(
                    ID, "unique", fmt,
                    "two byte strings decode to the pair %r: delivered %r and "
                    "canonical %r" % (got, _show(data), _show(re)))
                return out
    out["digest"] = core.digest_of(log)
    out["rdigest"] = core.digest_of(rlog)
    out["steps"] = out["ops"]       # deliveries
    return out


def _as_buffer(data, kind):
    """The same bytes presented as different bytes-like objects (the decoders
    document 'bytes like object'): what counts is the buffer's bytes, not the
    item size of the container."""
    import array
    if kind == "mv":
        return memoryview(data)
    if kind == "bytearray":
        return bytearray(data)
    if kind == "arrayB":
        return array.array("B", data)
    if kind == "arrayb":
        a = array.array("b")        # signed char items, same bytes
        a.frombytes(data)
        return a
    if kind == "mvb" and data:
        return memoryview(data).cast("b")
    if kind == "mvc" and data:
        return memoryview(data).cast("c")
    if kind in ("arrayH", "mvH") and len(data) % 2 == 0 and data:
        a = array.array("H")
        a.frombytes(data)
        return a if kind == "arrayH" else memoryview(a)
    if kind == "arrayI" and len(data) % 4 == 0 and data:
        a = array.array("I")
        if a.itemsize == 4:
            a.frombytes(data)
            return a
    return data


def _show(d):
    if isinstance(d, (list, tuple)):
        return [bytes(x).hex() for x in d]
    return bytes(d).hex()


def _strings_fault(r, data, k):
    data = [bytes(x) for x in data]
    if k == "drop_one" and data:
        data.pop(r.randrange(len(data)))
    elif k == "add_one":
        data.insert(r.randrange(len(data) + 1), r.randbytes(r.randrange(0, 4)))
    elif k == "truncate_r" and data:
        data[0] = data[0][:max(0, len(data[0]) - r.randrange(1, 3))]
    elif k == "truncate_s" and len(data) > 1:
        data[1] = data[1][:max(0, len(data[1]) - r.randrange(1, 3))]
    elif k == "extend_r" and data:
        data[0] = (b"\x00" if r.random() < 0.5 else r.randbytes(1)) + data[0]
    elif k == "extend_s" and len(data) > 1:
        data[1] = data[1] + r.randbytes(1)
    elif k == "swap":
        data.reverse()
    elif k == "empty_r" and data:
        data[0] = b""
    elif k == "flip_r" and data and data[0]:
        i = r.randrange(len(data[0]))
        data[0] = data[0][:i] + bytes([data[0][i] ^ (1 << r.randrange(8))]) + \
            data[0][i + 1:]
    elif k == "join" and len(data) == 2:
        data = [data[0] + data[1]]
    return data
