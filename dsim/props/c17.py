"""C17 - scalars and nonces drawn from entropy: in range, unbiased, replayable.

The seam is the entropy source: a simulated device passed as `entropy=` and
installed as ecdsa.util.os.urandom for the default path.

  extra()    fault_enumeration: for small orders the *complete* space of
             first-request byte strings is enumerated through a scripted
             device; every value of [1, n-1] must be produced by the same
             number of strings; memorylessness after a rejection is checked
             on seeded continuations.  (exhaustive for that sub-space)
  execute()  exploration: seeded adversarial / uniform streams on real and
             toy orders through randrange, SigningKey.generate, sign(entropy=)
             and the default os.urandom path; range, function-of-the-stream,
             fresh-bytes oracles; seed helpers.
"""
import concurrent.futures as cf
import multiprocessing
import os
import time

from .. import core, libx, world
from ..model import curves as mcurves
from ..model import ec

ID = "C17"
LEVEL = "fault_enumeration"
RULE = ("(a) enumeration: for each small order the scripted entropy device "
        "serves every byte string of the size of the sampler's first request "
        "(256^size leaves per order; all orders in the tier's list), counting "
        "the exact output distribution; (b) seeded runs: 6-12 draws per run "
        "through randrange / SigningKey.generate / sign(entropy=) / default "
        "os.urandom path / seed helpers under policies uniform, zeros, ones, "
        "repeat, boundary, reject-k; non-trivial run = >= 1 adversarial "
        "policy draw or >= 1 rejection observed; distinct = distinct sha256 "
        "of the entropy-request log; evaluations = seeded runs + enumerated "
        "orders, distinct_nontrivial adds the number of enumerated orders")
COMPONENTS_REAL = ["ecdsa.util.randrange, PRNG, randrange_from_seed__*",
                   "ecdsa.keys.SigningKey.generate / sign / sign_number",
                   "ecdsa.ecdh.ECDH.generate_private_key"]
COMPONENTS_STUB = ["entropy source: SimEntropy (entropy= argument and "
                   "ecdsa.util.os.urandom shim)"]
ASSUMPTIONS = ["uniformity argument: equal first-request counts + "
               "memorylessness after rejection => exactly uniform under a "
               "uniform stream", "model ECDSA arithmetic for nonce recovery"]
HISTORY_DIFF = {"quick": 120, "thorough": 1000}
SHRINK = [["ops"]]
REQUIRED_PROBES = {"quick": ["rejection_seen", "default_urandom_path",
                             "nonce_recovered"],
                   "thorough": ["rejection_seen", "default_urandom_path",
                                "nonce_recovered"]}


def budget(tier):
    if tier == "quick":
        return dict(runs=9000, wall=60, chunk=150)
    return dict(runs=400000, wall=600, chunk=1000)


# ------------------------------------------------------------ enumeration --

def _first_request_size(lu, n):
    sizes = []

    def probe(nb):
        sizes.append(nb)
        raise world.NeedMore()
    try:
        lu.randrange(n, probe)
    except world.NeedMore:
        pass
    return sizes[0] if sizes else None


def enum_order(n):
    """Enumerate every first-request byte string for order n.  Returns a
    dict with counts and any violation found."""
    core.lib()
    from ecdsa import util as lu
    # the value drawn is a function of (order, bytes), not of what the
    # sampler was asked before: draw for sibling orders of the same bit
    # length first (a stale per-size cache would show in the counts below)
    import random as _random
    wr = _random.Random(n * 7919)
    bl = max(n.bit_length(), 1)
    for sib in (1 << (bl - 1), (1 << (bl - 1)) + 1, max(2, n - 1), n + 1,
                (1 << bl) - 1, max(2, 1 << (bl - 1)) + 2):
        if sib >= 2:
            try:
                lu.randrange(sib, lambda k: wr.randbytes(k))
            except Exception:
                pass
    size = _first_request_size(lu, n)
    res = dict(order=n, size=size, leaves=0, rejected=0, violation=None)
    if size is None:
        res["violation"] = ("no-request", "randrange(%d) returned without "
                            "asking the entropy source for anything" % n)
        return res
    if size > 3:
        res["not_enumerable"] = True
        return res
    counts = {}
    total = 256 ** size
    rejected_scripts = []
    for w in range(total):
        script = w.to_bytes(size, "big")
        dev = world.SimEntropy("scripted", script=script)
        try:
            v = lu.randrange(n, dev)
        except world.NeedMore:
            res["rejected"] += 1
            if len(rejected_scripts) < 8:
                rejected_scripts.append(script)
            continue
        except Exception as e:
            res["violation"] = ("raises-" + type(e).__name__,
                                "randrange(%d) raised %r on first request %s"
                                % (n, e, script.hex()))
            return res
        if not isinstance(v, int) or not 1 <= v <= n - 1:
            res["violation"] = ("range", "randrange(%d) returned %r for "
                                "entropy %s" % (n, v, script.hex()))
            return res
        counts[v] = counts.get(v, 0) + 1
    res["leaves"] = total
    missing = [v for v in range(1, n) if v not in counts]
    if missing:
        res["violation"] = ("missing", "order %d: values %r are never "
                            "produced by any first request" % (n, missing[:8]))
        return res
    cs = set(counts.values())
    if len(cs) != 1:
        lo = min(counts, key=counts.get)
        hi = max(counts, key=counts.get)
        res["violation"] = ("biased", "order %d: value %d is produced by %d "
                            "first-request strings but value %d by %d (of %d)"
                            % (n, hi, counts[hi], lo, counts[lo], total))
        return res
    res["per_value"] = cs.pop()
    # an entropy source that hands back MORE bytes than asked for (a hash
    # block, say): whatever the sampler does with the surplus, a uniform reply
    # must still give a uniform value.  (A sampler that refuses such a reply
    # with an exception is not judged.)
    if size == 1 and n <= 128:
        counts2 = {}
        refused = False
        for w in range(256 ** 2):
            reply = w.to_bytes(2, "big")
            calls = [0]

            def src(nb, reply=reply, calls=calls):
                calls[0] += 1
                if calls[0] > 1:
                    raise world.NeedMore()
                return reply
            try:
                v = lu.randrange(n, src)
            except world.NeedMore:
                continue
            except Exception:
                refused = True
                break
            if not 1 <= v <= n - 1:
                res["violation"] = ("overlong-range", "randrange(%d) returned "
                                    "%r for the over-long reply %s" % (
                                        n, v, reply.hex()))
                return res
            counts2[v] = counts2.get(v, 0) + 1
        res["leaves"] += 256 ** 2
        if not refused and counts2:
            if len(counts2) != n - 1 or len(set(counts2.values())) != 1:
                lo = min(range(1, n), key=lambda v: counts2.get(v, 0))
                hi = max(counts2, key=counts2.get)
                res["violation"] = (
                    "overlong-biased", "order %d, entropy source replying "
                    "with 2 bytes to a 1-byte request: value %d from %d "
                    "replies, value %d from %d" % (
                        n, hi, counts2[hi], lo, counts2.get(lo, 0)))
                return res
    # a block that is rejected when it comes first must be rejected every
    # time: served for ever, the sampler must keep asking and never return
    for rej in rejected_scripts[:2]:
        served = [0]

        def src(nb, rej=rej, served=served):
            served[0] += 1
            if served[0] > 2500:
                raise world.NeedMore()
            return rej
        try:
            v = lu.randrange(n, src)
            res["violation"] = (
                "rejected-then-returned", "order %d: the block %s is rejected "
                "as a first request, yet after %d identical blocks the "
                "sampler returned %r" % (n, rej.hex(), served[0], v))
            return res
        except world.NeedMore:
            pass
        except Exception as e:
            res["violation"] = ("raises-" + type(e).__name__,
                                "randrange(%d) raised %r on a repeating "
                                "rejected block" % (n, e))
            return res
    # memorylessness: behaviour after a rejected request == from scratch
    import random
    r = random.Random(n)
    for rej in rejected_scripts:
        for _ in range(6):
            cont = r.randbytes(size * r.randrange(1, 4))
            a = _outcome(lu, n, rej + cont)
            b = _outcome(lu, n, cont)
            if a[0] != b[0] or (a[0] == "v" and (a[1] != b[1] or
                                                 a[2] - len(rej) != b[2])):
                res["violation"] = (
                    "memory", "order %d: after the rejected request %s the "
                    "continuation %s gives %r, from scratch %r" % (
                        n, rej.hex(), cont.hex(), a, b))
                return res
    return res


def enum_key_paths(cname):
    """Enumerate every first-request byte string through
    SigningKey.generate(entropy=) and SigningKey.sign_number(entropy=) on a
    toy curve: private scalars and nonces must be uniform over [1, n-1]."""
    core.lib()
    from ecdsa import util as lu, keys as lk
    from ecdsa.ecdsa import RSZeroError
    mc = mcurves.by_name(cname)
    n = mc.n
    curve = libx.fresh_lib_curve(mc)
    res = dict(order=n, curve=cname, leaves=0, rejected=0, violation=None,
               size=None, kind="key_paths")
    size = _first_request_size(lu, n)
    sizes = []

    def probe(nb):
        sizes.append(nb)
        raise world.NeedMore()
    try:
        lk.SigningKey.generate(curve, probe)
    except world.NeedMore:
        pass
    gsize = sizes[0] if sizes else None
    res["size"] = gsize
    if gsize is None or gsize > 2:
        res["not_enumerable"] = gsize is not None
        if gsize is None:
            res["violation"] = ("generate-no-request", "SigningKey.generate "
                                "did not ask the entropy source for anything")
        return res
    sk = lk.SigningKey.from_secret_exponent(1 + n // 3, curve)
    d = 1 + n // 3
    e = 5 % n
    for path in ("generate", "sign_number"):
        counts = {}
        for w in range(256 ** gsize):
            script = w.to_bytes(gsize, "big")
            dev = world.SimEntropy("scripted", script=script)
            try:
                if path == "generate":
                    v = int(lk.SigningKey.generate(curve, dev)
                            .privkey.secret_multiplier)
                else:
                    try:
                        r_, s_ = sk.sign_number(e, entropy=dev)
                        v = (e + r_ * d) * ec.inv(s_, n) % n
                    except RSZeroError:
                        # the nonce is whatever the sampler drew
                        v = lu.randrange(n, world.SimEntropy(
                            "scripted", script=script))
            except world.NeedMore:
                res["rejected"] += 1
                continue
            except Exception as ex:
                res["violation"] = (path + "-raises-" + type(ex).__name__,
                                    "%s on %s raised %r for entropy %s" % (
                                        path, cname, ex, script.hex()))
                return res
            if not 1 <= v <= n - 1:
                res["violation"] = (path + "-range", "%s on %s gave %r for "
                                    "entropy %s" % (path, cname, v,
                                                    script.hex()))
                return res
            counts[v] = counts.get(v, 0) + 1
        res["leaves"] += 256 ** gsize
        missing = [v for v in range(1, n) if v not in counts]
        if missing:
            res["violation"] = (path + "-missing", "%s on %s (n=%d): values "
                                "%r are never produced" % (path, cname, n,
                                                           missing[:8]))
            return res
        if len(set(counts.values())) != 1:
            lo = min(counts, key=counts.get)
            hi = max(counts, key=counts.get)
            res["violation"] = (path + "-biased", "%s on %s (n=%d): value %d "
                                "from %d strings, value %d from %d" % (
                                    path, cname, n, hi, counts[hi], lo,
                                    counts[lo]))
            return res
    return res


class _CountingDev(object):
    """Uniform seeded stream that counts the requests of one draw."""

    def __init__(self, r):
        self.r = r
        self.calls = 0
        self.first = None

    def __call__(self, nbytes):
        self.calls += 1
        if self.first is None:
            self.first = nbytes
        return self.r.randbytes(nbytes)


def rate_orders(tier, seed):
    """Orders for the acceptance-rate bound: the named curves' orders and
    orders just above / below / between powers of two, where the fraction of
    first requests that may be accepted is well below one."""
    out = [c.n for c in mcurves.named()]
    ks = [9, 17, 33, 49, 53, 64, 100, 128, 160, 192, 255, 256, 384, 521]
    r = core.rng(seed, "c17-rate")
    for k in ks:
        out += [(1 << k) + 2, (1 << k) + 3, (1 << k) + (1 << (k // 2)) + 1,
                (1 << k) + r.getrandbits(max(1, k - 3)) + 2,
                3 << (k - 1), 5 << (k - 2)]
    if tier == "thorough":
        for _ in range(150):
            k = r.randrange(5, 600)
            out.append((1 << k) + r.getrandbits(r.randrange(1, k)) + 2)
    return sorted(set(out))


def rate_order(n, draws, seed):
    """Mapping-independent bound on how often a draw may finish within its
    first entropy request.  If the sampler is exactly uniform, each of the
    n-1 values has probability 1/(n-1); the first request has B bits, so a
    value can be the immediate answer to at most floor(2^B / (n-1)) of the 2^B
    first-request strings; hence P(done after one request) <= p_max =
    floor(2^B/(n-1)) * (n-1) / 2^B.  Observing a larger fraction over `draws`
    independent uniform streams has probability <= exp(-draws * KL(f||p_max))
    (Chernoff); below 2^-64 it is reported.  One-sided: a sampler that asks
    more often than necessary is never flagged."""
    import math
    import random
    core.lib()
    from ecdsa import util as lu
    r = random.Random("c17-rate:%d:%d" % (seed, n))
    one = 0
    size = None
    for _ in range(draws):
        dev = _CountingDev(r)
        v = lu.randrange(n, dev)
        if not 1 <= v <= n - 1:
            return dict(kind="rate", order=n, leaves=0, size=size or 0,
                        rejected=0, violation=(
                            "rate-range", "randrange(%d) returned %r" % (n, v)))
        if size is None:
            size = dev.first
        if dev.calls == 1 and dev.first == size:
            one += 1
    res = dict(kind="rate", order=n, leaves=0, size=size, rejected=draws - one,
               draws=draws, one_request=one, violation=None)
    if not size:
        return res
    B = 8 * size
    cmax = (1 << B) // (n - 1)
    from fractions import Fraction
    deficit = Fraction((1 << B) - cmax * (n - 1), 1 << B)   # 1 - p_max
    res["p_max"] = float(1 - deficit)
    f = one / draws
    pm = float(1 - deficit)
    if deficit > 0 and f > pm:
        if one == draws:
            log_bound = draws * math.log1p(-float(deficit))
        else:
            log_bound = -draws * (f * math.log(f / pm) + (1 - f) * math.log(
                (1 - f) / float(deficit)))
        res["log2_bound"] = log_bound / math.log(2)
        if log_bound < -64 * math.log(2):
            res["violation"] = (
                "never-rejects" if one == draws else "rejects-too-seldom",
                "randrange(n) for the %d-bit order n=%d finished within its "
                "first %d-byte request in %d of %d draws from independent "
                "uniform streams; an exactly uniform sampler can do so with "
                "probability at most floor(2^%d/(n-1))*(n-1)/2^%d = %.6f "
                "(each value may be the answer to at most %d first requests)"
                "; the chance of this observation is below 2^%.0f - some "
                "values of [1, n-1] are over-represented or unreachable" % (
                    n.bit_length(), n, size, one, draws, B, B, pm, cmax,
                    res["log2_bound"]))
    return res


def _rate_draws(n, tier):
    return 14000 if tier == "quick" else 40000


def _enum_any(job):
    try:
        if isinstance(job, tuple) and job[0] == "rate":
            return rate_order(job[1], job[2], job[3])
        if isinstance(job, str):
            return enum_key_paths(job)
        return enum_order(job)
    except Exception as ex:
        # an exception raised inside the library during the enumeration is
        # the sampler failing on valid use, not a harness error
        lv = core.library_exception(ID, ex)
        if lv is None:
            raise
        if isinstance(job, tuple):
            return dict(kind="rate", order=job[1], leaves=0, size=0,
                        rejected=0, draws=job[2], seed=job[3], violation=(
                            "exception-" + type(ex).__name__, lv["msg"]))
        res = dict(order=job if not isinstance(job, str) else 0, leaves=0,
                   size=0, rejected=0, violation=(
                       "exception-" + type(ex).__name__, lv["msg"]))
        if isinstance(job, str):
            res.update(kind="key_paths", curve=job)
        return res


def _outcome(lu, n, script):
    dev = world.SimEntropy("scripted", script=script)
    try:
        v = lu.randrange(n, dev)
        return ("v", v, dev.pos)
    except world.NeedMore:
        return ("more", None, dev.pos)


def enum_orders(tier, seed):
    small = list(range(2, 131))
    if tier == "quick":
        extra_ = [255, 256, 257, 258, 511, 512, 513, 1000, 1023, 1024, 1025,
                  2047, 2048, 2049, 4093, 4094, 4095]
        extra_ += [c.n for c in mcurves.toy() if c.n < 4096]
        r = core.rng(seed, "c17-enum")
        extra_ += [r.randrange(131, 4096) for _ in range(120)]
        return sorted(set(small + extra_))
    return list(range(2, 4096))


def extra(tier, seed):
    t0 = time.time()
    core.lib()
    orders = enum_orders(tier, seed)
    three = []
    if tier == "thorough":
        r = core.rng(seed, "c17-enum3")
        three = [65521, 65537, 65563] + [r.randrange(1 << 16, 1 << 20)
                                         for _ in range(5)]
    ctx = multiprocessing.get_context("fork")
    workers = int(os.environ.get("VERIF_WORKERS", min(16, os.cpu_count() or 1)))
    results = []
    with cf.ProcessPoolExecutor(max_workers=workers, mp_context=ctx) as ex:
        # big orders first so the tail is short
        keycurves = [c.name for c in mcurves.toy()
                     if c.h == 1 and c.n < (128 if tier == "quick" else 4096)]
        rs = core.rng(seed, "c17-enum-order")
        jobs = sorted(orders, reverse=True)
        # half the workers see the orders ascending, half descending, so a
        # value that depended on what was drawn before shows either way
        jobs = jobs[::2] + list(reversed(jobs[1::2]))
        rjobs = [("rate", n_, _rate_draws(n_, tier), seed)
                 for n_ in rate_orders(tier, seed)]
        for res in ex.map(_enum_any, three + keycurves + jobs,
                          chunksize=1 if three else 6):
            results.append(res)
        rate_results = list(ex.map(_enum_any, rjobs, chunksize=2))
    viols = []
    leaves = 0
    not_enum = []
    for res in results:
        leaves += res["leaves"]
        if res.get("not_enumerable"):
            not_enum.append(res["order"])
        if res["violation"]:
            site, msg = res["violation"]
            v = core.violation(ID, "uniform", site, msg)
            prog_ = dict(kind="enum", order=res["order"])
            if res.get("kind") == "key_paths":
                prog_ = dict(kind="enum", curve=res["curve"])
            viols.append(dict(index=-res["order"], run_seed=0, program=prog_,
                              violation=v))
    for res in rate_results:
        if res["violation"]:
            site, msg = res["violation"]
            viols.append(dict(
                index=-res["order"] % (1 << 40) - (1 << 41), run_seed=0,
                program=dict(kind="rate", order=res["order"],
                             draws=res.get("draws", 0), seed=seed),
                violation=core.violation(ID, "uniform", site, msg)))
    if not_enum:
        raise core.HarnessError(
            "first entropy request for orders %r is larger than 3 bytes: not "
            "enumerable by this harness" % (not_enum[:5],))
    sample = [dict(kind="enum", order=r_["order"], first_request_bytes=r_["size"],
                   leaves=r_["leaves"], rejected=r_["rejected"],
                   strings_per_value=r_.get("per_value"))
              for r_ in results[:2] + results[-2:]]
    binding = [r_ for r_ in rate_results if r_.get("p_max", 1.0) < 0.999]
    sample += [dict(kind="rate", order_bits=r_["order"].bit_length(),
                    first_request_bytes=r_["size"], draws=r_.get("draws"),
                    finished_in_first_request=r_.get("one_request"),
                    p_max=r_.get("p_max")) for r_ in binding[:2]]
    return dict(evaluations=len(results) + len(rate_results),
                distinct_nontrivial=len(results) + len(binding),
                samples=sample, exhaustive=True, wall_s=time.time() - t0,
                violations=viols,
                report=dict(enumerated_orders=len(results),
                            enumerated_leaves=leaves,
                            orders="all n in [2,4096) + 3-byte orders %r" % three
                            if tier == "thorough" else
                            "%d orders in [2,4096): 2..130, boundaries, toy "
                            "orders, 120 seeded" % len(orders),
                            rate_bound_orders=len(rate_results),
                            rate_bound_orders_binding=len(binding),
                            rate_bound_draws=sum(r_.get("draws", 0)
                                                 for r_ in rate_results),
                            exhaustive_scope="every byte string of the "
                            "sampler's first request, per enumerated order"))


# ------------------------------------------------------------ seeded runs --

POLICIES = ["uniform", "uniform", "zeros", "ones", "repeat", "boundary",
            "boundary", "reject_k", "reject_k"]
OPS = ["randrange", "randrange", "two_draws", "generate", "sign", "sign",
       "default_generate", "default_sign", "ecdh_generate", "seed_helper",
       "seed_helper"]


def generate(run_seed, tier):
    r = core.rng(run_seed, "ops")
    if r.random() < 0.5:
        mc = r.choice([c for c in mcurves.toy() if c.h == 1])
    else:
        mc = r.choice(mcurves.named()[:9] + mcurves.named())
    ops = []
    for _ in range(r.randrange(6, 13)):
        name = r.choice(OPS)
        op = dict(op=name, policy=r.choice(POLICIES), dseed=r.getrandbits(48))
        if name in ("randrange", "two_draws"):
            c = r.randrange(5)
            if c == 0:
                op["order"] = mc.n
            elif c == 1:
                op["order"] = r.choice([2, 3, 4, 5, 255, 256, 257, 65536,
                                        65537, 1 << 64, (1 << 64) + 1])
            elif c == 2:
                b = r.randrange(2, 600)
                op["order"] = max(2, (1 << b) + r.choice([-1, 0, 1, 2]))
            else:
                op["order"] = max(2, r.getrandbits(r.randrange(2, 600)))
            if r.random() < 0.04:
                # very large orders: requests of 255 / 256 / 511 / 512 / 513
                # and more bytes
                b = r.choice([2039, 2040, 2041, 2047, 2048, 2049, 4087, 4088,
                              4089, 4095, 4096, 4097, r.randrange(600, 9000)])
                op["order"] = (1 << b) + r.choice([-1, 0, 1, 2]) \
                    if r.random() < 0.5 else max(2, r.getrandbits(b))
            # an entropy source that itself draws from the library (for
            # another order) while serving a request
            if r.random() < 0.1:
                op["reenter"] = max(2, r.getrandbits(r.choice(
                    [3, 9, 17, 64, 130, 257, 520])))
            # a failed call (order of the wrong type / out of domain) made
            # elsewhere in the program just before
            if r.random() < 0.1:
                op["bad"] = r.choice(["float", "none", "str", "one", "zero",
                                      "neg"])
        if name in ("sign", "default_sign", "generate", "default_generate"):
            op["d"] = libx.key_scalar(r, mc.n)
            op["msg"] = core.hx(r.randbytes(r.choice([0, 1, 8])))
            op["hash"] = libx.pick_hash_name(r, mc.p < 1 << 24)
        if name == "seed_helper":
            op["helper"] = r.choice(["trytryagain", "overshoot_modulo",
                                     "truncate_bytes", "truncate_bits"])
            op["seed"] = core.hx(r.randbytes(r.choice([0, 1, 16, 32])))
            c = r.randrange(3)
            op["order"] = mc.n if c else max(3, r.getrandbits(
                r.randrange(2, 300)))
        ops.append(op)
    return dict(curve=mc.name, ops=ops)


class _OS(object):
    """Stand-in for the `os` module inside ecdsa.util."""

    def __init__(self, real, dev):
        self._real = real
        self.urandom = dev

    def __getattr__(self, name):
        return getattr(self._real, name)


def execute(prog):
    if prog.get("kind") == "rate":
        out = core.new_outcome()
        res = _enum_any(("rate", prog["order"], prog["draws"], prog["seed"]))
        if res["violation"]:
            site, msg = res["violation"]
            out["violation"] = core.violation(ID, "uniform", site, msg)
        return out
    if prog.get("kind") == "enum":
        # replay of an enumeration finding
        out = core.new_outcome()
        res = enum_key_paths(prog["curve"]) if "curve" in prog \
            else enum_order(prog["order"])
        if res["violation"]:
            site, msg = res["violation"]
            out["violation"] = core.violation(ID, "uniform", site, msg)
        return out
    core.lib()
    from ecdsa import util as lu, keys as lk, ecdh as lecdh
    from ecdsa.ecdsa import RSZeroError
    import random
    out = core.new_outcome()
    mc = mcurves.by_name(prog["curve"])
    toy = mc.p < (1 << 24)
    curve = libx.fresh_lib_curve(mc) if toy else libx.global_lib_curve(mc)
    log = []

    def fail(site, msg, detail=None):
        raise core.Violation(core.violation(ID, site.split("/")[0],
                                            site.split("/", 1)[1], msg, detail))

    devices = []

    def device(op, order):
        r = random.Random(op["dseed"])
        cls = world.SimEntropy if op["dseed"] % 4 else world.SizedSimEntropy
        d = cls(op["policy"], r=r, order=order)
        devices.append(d)
        return d

    def draw(fn, dev):
        """Run fn() (which draws from dev).  Returns value or None when the
        adversarial stream legitimately never lets the sampler finish."""
        try:
            return world.guarded(fn, 10)
        except world.NeedMore:
            return None

    real_os = getattr(lu, "os", None)
    try:
        for op in prog["ops"]:
            out["ops"] += 1
            name = op["op"]
            pol = op["policy"]
            if pol != "uniform":
                out["nontrivial"] = True
                if name != "seed_helper":
                    core.bump(out["faults"], "entropy_" + pol)
            if name in ("randrange", "two_draws"):
                n = op["order"]
                dev = _bounded(device(op, n))
                if op.get("bad"):
                    arg = {"float": float(n) if n < (1 << 900) else 7.0,
                           "none": None, "str": str(n), "one": 1, "zero": 0,
                           "neg": -n}[op["bad"]]
                    core.bump(out["faults"], "failed_call_" + op["bad"])
                    try:
                        world.guarded(lambda: lu.randrange(
                            arg, _bounded(world.SimEntropy(
                                "uniform", r=random.Random(op["dseed"] ^ 3)))),
                            10)
                    except Exception:
                        pass
                if op.get("reenter"):
                    dev = _reentrant(dev, lu, op["reenter"], op["dseed"])
                    core.bump(out["probes"], "reentrant_source")
                v = draw(lambda: lu.randrange(n, dev), dev)
                log.append((name, n.bit_length(), pol, len(dev.dev.log)))
                if v is None:
                    continue
                if len(dev.dev.log) > 1:
                    core.bump(out["probes"], "rejection_seen")
                    out["nontrivial"] = True
                log.append(("v", v))
                if not isinstance(v, int) or not 1 <= v <= n - 1:
                    fail("range/randrange", "randrange(%d) returned %r under "
                         "policy %s (stream %s)" % (
                             n, v, pol, dev.dev.consumed().hex()[:200]))
                used = dev.dev.consumed()
                _conserve(fail, "randrange", n, used)
                rep = world.SimEntropy("scripted", script=used)
                try:
                    v2 = lu.randrange(n, rep)
                except world.NeedMore:
                    fail("replay/randrange", "replaying the %d consumed bytes "
                         "does not reproduce the draw (asks for more)"
                         % len(used))
                if v2 != v:
                    fail("replay/randrange", "same entropy stream gave %d, "
                         "then %d" % (v, v2))
                # ... and not of what was drawn for other orders in between
                bl_ = max(n.bit_length(), 1)
                hr = random.Random(op["dseed"] ^ 0x5A5A)
                for sib in (1 << (bl_ - 1), (1 << (bl_ - 1)) + 1, n + 1,
                            (1 << bl_) - 1):
                    if sib >= 2:
                        try:
                            lu.randrange(sib, _bounded(world.SimEntropy(
                                "uniform", r=hr)))
                        except world.NeedMore:
                            pass
                try:
                    v3 = lu.randrange(n, world.SimEntropy("scripted",
                                                          script=used))
                except world.NeedMore:
                    v3 = None
                if v3 != v:
                    fail("history/randrange", "the same (order, bytes) gave "
                         "%d before and %r after draws for other orders of "
                         "the same bit length" % (v, v3))
                if name == "two_draws":
                    w = draw(lambda: lu.randrange(n, dev), dev)
                    if w is None:
                        continue
                    if not 1 <= w <= n - 1:
                        fail("range/randrange", "second draw %r out of range"
                             % (w,))
                    rest = dev.dev.consumed()[len(used):]
                    rep2 = world.SimEntropy("scripted", script=rest)
                    try:
                        w2 = lu.randrange(n, rep2)
                    except world.NeedMore:
                        fail("fresh/randrange", "second draw did not use "
                             "only fresh bytes (replay of the bytes served "
                             "after the first draw asks for more)")
                    if w2 != w:
                        fail("fresh/randrange", "second draw is %d, but a "
                             "first draw from a device positioned at the end "
                             "of the first draw gives %d: bytes reused or "
                             "hidden state between draws" % (w, w2))
            elif name in ("generate", "default_generate", "ecdh_generate"):
                n = mc.n
                dev = _bounded(device(op, n))
                hf = libx.hash_by_name(op.get("hash", "sha1"))
                if name == "generate":
                    sk = draw(lambda: lk.SigningKey.generate(curve, dev, hf),
                              dev)
                else:
                    if real_os is not None:
                        lu.os = _OS(real_os, dev)
                    core.bump(out["probes"], "default_urandom_path")
                    try:
                        if name == "default_generate":
                            sk = draw(lambda: lk.SigningKey.generate(
                                curve, hashfunc=hf), dev)
                        else:
                            eo = lecdh.ECDH(curve=curve)
                            sk = draw(lambda: (eo.generate_private_key(),
                                               eo.private_key)[1], dev)
                    finally:
                        if real_os is not None:
                            lu.os = real_os
                log.append((name, pol, len(dev.dev.log)))
                if sk is None:
                    continue
                d = int(sk.privkey.secret_multiplier)
                if not 1 <= d <= n - 1:
                    fail("range/" + name, "generated private scalar %r not in "
                         "[1, n-1] (n=%d, policy %s)" % (d, n, pol))
                used = dev.dev.consumed()
                if not used:
                    if name != "generate":
                        # the default path did not go through the shimmed
                        # ecdsa.util.os.urandom (e.g. imported differently):
                        # no seam, no verdict
                        core.bump(out["probes"], "default_path_not_intercepted")
                        continue
                    fail("stream/" + name, "a key was generated without "
                         "drawing from the supplied entropy source")
                _conserve(fail, name, n, used)
                rep = world.SimEntropy("scripted", script=used)
                try:
                    sk2 = lk.SigningKey.generate(curve, rep, hf)
                except world.NeedMore:
                    fail("replay/" + name, "replaying the consumed entropy "
                         "does not reproduce the key (asks for more)")
                if bytes(sk2.to_string()) != bytes(sk.to_string()):
                    fail("replay/" + name, "the same entropy stream gave two "
                         "different keys")
                Q = ec.mul(mc, d, mc.G)
                if bytes(sk.verifying_key.to_string()) != \
                        ec.encode_point(mc, Q, "raw"):
                    fail("range/" + name + "-pub", "public key of generated "
                         "key is not d*G")
            elif name in ("sign", "default_sign"):
                n = mc.n
                d = op["d"]
                hf = libx.hash_by_name(op["hash"])
                sk = lk.SigningKey.from_secret_exponent(d, curve, hf)
                msg = core.unhx(op["msg"])
                dev = _bounded(device(op, n))
                e = ec.digest_to_int(hf(msg).digest(), n)

                def do_sign(entropy):
                    try:
                        return sk.sign(msg, entropy=entropy, hashfunc=hf)
                    except RSZeroError:
                        return "rszero"
                if name == "sign":
                    sig = draw(lambda: do_sign(dev), dev)
                else:
                    if real_os is not None:
                        lu.os = _OS(real_os, dev)
                    core.bump(out["probes"], "default_urandom_path")
                    try:
                        sig = draw(lambda: do_sign(None), dev)
                    finally:
                        if real_os is not None:
                            lu.os = real_os
                log.append((name, pol, len(dev.dev.log)))
                if sig is None:
                    continue
                used = dev.dev.consumed()
                if not used:
                    if name != "sign":
                        core.bump(out["probes"], "default_path_not_intercepted")
                        continue
                    fail("stream/" + name, "a signature was made without "
                         "drawing the nonce from the entropy source")
                _conserve(fail, name, n, used)
                rep = world.SimEntropy("scripted", script=used)
                try:
                    k_expect = lu.randrange(n, rep)
                except world.NeedMore:
                    k_expect = None
                if sig == "rszero":
                    core.bump(out["probes"], "rs_zero")
                    if k_expect is not None and \
                            ec.ecdsa_sign(mc, d, e, k_expect) is not None:
                        fail("nonce/" + name, "RSZeroError although the nonce "
                             "drawn from the stream gives a valid signature")
                    continue
                L = mc.nlen
                sig = bytes(sig)
                r_, s_ = int.from_bytes(sig[:L], "big"), \
                    int.from_bytes(sig[L:], "big")
                if not (1 <= r_ < n and 1 <= s_ < n):
                    fail("range/" + name, "signature (r, s) out of range")
                k = (e + r_ * d) * ec.inv(s_, n) % n
                core.bump(out["probes"], "nonce_recovered")
                if not 1 <= k <= n - 1:
                    fail("range/" + name + "-nonce", "recovered nonce %d not "
                         "in [1, n-1]" % k)
                if ec.ecdsa_sign(mc, d, e, k) != (r_, s_):
                    fail("nonce/" + name, "signature is not the ECDSA "
                         "signature for its recovered nonce")
                if k_expect is not None and k != k_expect:
                    fail("nonce/" + name + "-stream", "nonce used (%d) is not "
                         "the value the sampler draws from the same stream "
                         "(%d)" % (k, k_expect))
                rep = world.SimEntropy("scripted", script=used)
                try:
                    sig2 = sk.sign(msg, entropy=rep, hashfunc=hf)
                except world.NeedMore:
                    fail("replay/" + name, "replaying the consumed entropy "
                         "asks for more bytes")
                if bytes(sig2) != sig:
                    fail("replay/" + name, "the same entropy stream gave two "
                         "different signatures")
            elif name == "seed_helper":
                fn = getattr(lu, "randrange_from_seed__" + op["helper"])
                seed = core.unhx(op["seed"])
                n = op["order"]
                log.append((name, op["helper"], n.bit_length()))
                res = []
                for _ in range(2):
                    try:
                        res.append(("v", fn(seed, n)))
                    except AssertionError:
                        res.append(("assert", None))
                    except Exception as ex:
                        fail("helper/%s-%s" % (op["helper"],
                                               type(ex).__name__),
                             "randrange_from_seed__%s(%d-byte seed, %d-bit "
                             "order) raised %r" % (op["helper"], len(seed),
                                                   n.bit_length(), ex))
                if res[0] != res[1]:
                    fail("helper/%s-nondeterministic" % op["helper"],
                         "two calls with the same (seed, order) gave %r and "
                         "%r" % (res[0], res[1]))
                if res[0][0] == "v":
                    v = res[0][1]
                    if not 1 <= v <= n - 1:
                        fail("helper/%s-range" % op["helper"],
                             "randrange_from_seed__%s returned %r for order "
                             "%d" % (op["helper"], v, n))
    except core.Violation as v:
        v.v["detail"] = dict(op=op, info=v.v.get("detail"))
        out["violation"] = v.v
    finally:
        if real_os is not None:
            lu.os = real_os
    out["digest"] = core.digest_of(log)
    out["rdigest"] = out["digest"]
    out["steps"] = sum(len(d.log) for d in devices)   # entropy requests
    return out


def _conserve(fail, site, n, used):
    """Counting bound, independent of how bytes are mapped to values: a
    sampler that is exactly uniform over the n-1 values of [1, n-1] gives
    each value probability 1/(n-1); an execution that consumed B bits has
    probability 2^-B and ends in one value, so 2^-B <= 1/(n-1) on every
    execution."""
    if (1 << (8 * len(used))) < n - 1:
        fail("entropy/" + site, "a value in [1, n-1] for a %d-bit order was "
             "produced from only %d entropy bytes: it cannot be uniformly "
             "distributed" % (n.bit_length(), len(used)))


class _bounded(object):
    """Limits the number of requests an adversarial stream serves, so a
    sampler legitimately spinning on a constant stream ends with NeedMore."""

    def __new__(cls, dev, cap=64):
        if isinstance(dev, world.SizedSimEntropy) and cls is _bounded:
            return object.__new__(_bounded_sized)
        return object.__new__(cls)

    def __init__(self, dev, cap=64):
        self.dev = dev
        self.cap = cap

    def __call__(self, nbytes):
        if self.dev.calls >= self.cap:
            raise world.NeedMore()
        return self.dev(nbytes)


class _reentrant(object):
    """An entropy source that, while serving a request, draws a value for
    another order from the library itself (its own inner stream)."""

    def __init__(self, inner, lu, order, seed):
        import random
        self.inner = inner
        self.dev = inner.dev
        self.lu = lu
        self.order = order
        self.r = random.Random(seed ^ 0x7E7E)
        self.depth = 0

    def __call__(self, nbytes):
        if self.depth == 0:
            self.depth += 1
            try:
                self.lu.randrange(self.order, world.SimEntropy(
                    "uniform", r=self.r))
            finally:
                self.depth -= 1
        return self.inner(nbytes)


class _bounded_sized(_bounded):
    def __len__(self):
        return len(self.dev)
