"""C18 - points and keys shared between threads behave as if used
sequentially.

2-3 simulated threads (real threads, baton-passing scheduler) run 1-2
operations each on shared point / key objects created fresh for the run.  A
pre-emption is possible before every access to an instance attribute of a
shared object (class-level wrappers) and/or at every line the library executes
(sys.monitoring).  Expected values come from running the same thread programs
one after another on private fresh copies.
"""
import hashlib
import os
import pickle

from .. import core, libx, sched
from ..model import curves as mcurves
from ..model import ec

ID = "C18"
LEVEL = "exploration"
RULE = ("seeded schedules of 2-3 threads x 1-2 operations on shared "
        "generator / unscaled point / key objects (fresh per run), switch "
        "points at shared-attribute accesses and/or library lines, "
        "strategies random / PCT / targeted parking, optional injected "
        "interrupt; non-trivial = >= 1 pre-emption inside an operation; "
        "distinct = distinct sha256 of the (thread, shared-access) event "
        "sequence")
COMPONENTS_REAL = ["ecdsa.ellipticcurve.PointJacobi / Point", "ecdsa.keys "
                   "SigningKey / VerifyingKey", "ecdsa.ecdsa Public_key / "
                   "Private_key", "ecdsa.rfc6979, ecdsa.util as reached",
                   "pickle", "real OS threads (one runnable at a time)"]
COMPONENTS_STUB = ["OS scheduler -> seeded baton scheduler",
                   "entropy -> scripted byte stream (entropy= argument)"]
ASSUMPTIONS = ["one bytecode instruction (a single attribute load/store, "
               "dict.copy()) is atomic, as the library itself assumes",
               "seeded search, not enumeration",
               "sequential execution on private fresh objects defines the "
               "expected value (that is the statement of C18)"]
SHRINK = [["threads", 0], ["threads", 1], ["threads", 2], ["sched", "parks"],
          ["sched", "trace"]]
REQUIRED_PROBES = {"quick": ["switch_inside_table_build",
                             "switch_inside_scale"],
                   "thorough": ["switch_inside_table_build",
                                "switch_inside_scale"]}
STEP_CAP = 400000

TOYS = ["toy23_gen_h1", "toy43_m3_h1", "toy67_zero_h1", "toy97_m3_h1",
        "toy127_gen_h1_nltp", "toy263_gen_h1_nlt256", "toy509_gen_h1",
        "toy1039_gen_h1_ngtp"]
NAMED = ["SECP112r1", "SECP128r1", "NIST192p", "NIST256p", "SECP256k1"]


def budget(tier):
    if tier == "quick":
        return dict(runs=17000, wall=80, chunk=100)
    return dict(runs=500000, wall=840, chunk=400)


# ------------------------------------------------------------ generation ---

def _gen_ops(r, scen, mc, nshared, n_ops):
    n = mc.n
    ops = []
    for _ in range(n_ops):
        s = r.randrange(nshared)
        t = r.randrange(nshared)
        if scen == "gen":
            name = r.choice(["mul", "mul", "mul", "rmul", "pickle", "mul_add",
                             "eq", "x", "add"])
        elif scen == "point":
            name = r.choice(["scale", "to_affine", "x", "y", "xy", "mul",
                             "mul_add", "eq", "add", "double", "neg", "pickle",
                             "mul_add_other"])
        elif scen == "signers":
            # several threads signing (and verifying) with ONE key, often the
            # same message, often the same operation twice in a row
            name = r.choice(["sign_det", "sign_det", "sign_det", "sign_k",
                             "verify", "to_string"])
        elif scen == "keys2":
            # the everyday multi-threaded use: several keys on one curve
            # (one shared generator), each thread verifying / signing
            name = r.choice(["verify", "verify", "verify", "verify_digest",
                             "sign_det", "sign_k", "to_string"])
        else:
            name = r.choice(["sign_det", "sign_k", "sign_ent", "verify",
                             "verify", "precompute", "to_string", "to_string",
                             "pub_x", "vk_pickle", "verify_digest", "pt_mul"])
        op = dict(op=name, s=s, t=t)
        if name in ("mul", "rmul", "pt_mul"):
            op["k"] = libx.structured_scalar(r, n, hi_mult=3)
        if name in ("mul_add", "mul_add_other"):
            op["a"] = libx.structured_scalar(r, n, hi_mult=2) or 1
            op["b"] = libx.structured_scalar(r, n, hi_mult=2) or 1
        if name in ("sign_det", "sign_k", "sign_ent", "verify",
                    "verify_digest"):
            # a small pool of messages: threads often do the *same* work
            op["msg"] = r.choice(["00", "a5a5", core.hx(r.randbytes(
                r.choice([1, 4, 9])))])
        if name == "sign_k":
            op["k"] = libx.key_scalar(r, n)
        if name == "sign_ent":
            op["stream"] = core.hx(r.randbytes(64))
        if name == "precompute":
            op["lazy"] = r.random() < 0.5
        if name == "to_string":
            op["enc"] = r.choice(["raw", "uncompressed", "hybrid"] +
                                 (["compressed"] if mc.plen > 1 else []))
        ops.append(op)
        if r.random() < (0.4 if scen == "signers" else 0.15) \
                and name != "precompute":
            ops.append(dict(op))    # the same operation once more
    return ops


def generate(run_seed, tier):
    r = core.rng(run_seed, "config")
    toy = r.random() < 0.93
    cname = r.choice(TOYS if toy else NAMED)
    mc = mcurves.by_name(cname)
    scen = r.choice(["gen", "gen", "point", "point", "key", "key", "keys2",
                     "signers"])
    shared = []
    if scen == "gen":
        shared.append(dict(kind="gen"))
        if r.random() < 0.4:
            shared.append(dict(kind="point", k=r.randrange(1, mc.n),
                               z=r.randrange(2, mc.p), order=True,
                               gen=r.random() < 0.6))
    elif scen == "point":
        for _ in range(r.choice([1, 1, 2])):
            shared.append(dict(kind="point", k=r.randrange(1, mc.n),
                               z=r.choice([r.randrange(2, mc.p), mc.p - 1, 2]),
                               order=r.random() < 0.7,
                               gen=r.random() < 0.3))
        if r.random() < 0.3:
            shared.append(dict(kind="gen"))
    else:
        # one key, sometimes two (they share the curve's generator and its
        # lazily built table), sometimes a bare point next to them
        for _ in range(r.choice([1, 1, 2]) if scen == "key"
                       else 1 if scen == "signers"
                       else r.choice([2, 2, 3])):
            shared.append(dict(kind="key", d=libx.key_scalar(r, mc.n),
                               unscaled=r.random() < 0.6,
                               z=r.randrange(2, mc.p),
                               hash=r.choice(["sha1", "sha256", "synth8"])))
            if scen == "key" and r.random() < 0.25:
                # the verifying key was built from a plain affine Point: its
                # public point carries no order of its own (no reduction of
                # multipliers, no table until precompute() swaps the point)
                shared[-1]["unscaled"] = False
                shared[-1]["affine"] = True
    deep = tier == "thorough" and r.random() < 0.3
    nthreads = r.choice([2, 2, 2, 3]) if not deep else r.choice([3, 3, 4])
    ro = core.rng(run_seed, "ops")
    threads = [_gen_ops(ro, scen, mc, len(shared),
                        ro.choice([1, 1, 2]) if not deep
                        else ro.choice([2, 3]))
               for _ in range(nthreads)]
    if scen == "key" and ro.random() < 0.35:
        # table building against use of the same key: one thread starts with
        # precompute(), another with an operation on that key's point
        k0 = ro.randrange(len(shared))
        threads[0][0] = dict(op="precompute", s=k0, t=k0,
                             lazy=ro.random() < 0.5)
        nm = ro.choice(["pt_mul", "pt_mul", "verify", "pub_x", "to_string"])
        aff = bool(shared[k0].get("affine"))
        if aff and ro.random() < 0.5:
            nm = "pt_mul"
        op = dict(op=nm, s=k0, t=k0)
        if nm == "pt_mul":
            op["k"] = libx.structured_scalar(ro, mc.n, hi_mult=3)
            if ro.random() < (0.75 if aff else 0.4):
                # a multiplier far longer than any table (an unreduced hash
                # value, say), either sign
                op["k"] = ((1 << (ro.randrange(3, 9) * mc.n.bit_length()))
                           + ro.getrandbits(mc.n.bit_length())) \
                    * ro.choice([1, 1, -1])
        if nm == "verify":
            op["msg"] = "a5a5"
        if nm == "to_string":
            op["enc"] = "uncompressed"
        threads[1][0] = op
    if scen == "keys2":
        # thread i mostly works with key i
        for ti, th in enumerate(threads):
            for op in th:
                if ro.random() < 0.8:
                    op["s"] = ti % len(shared)
    gran = r.choice(["attr", "attr", "line", "line", "attr+line",
                     "line_all"])
    if scen == "signers" and r.random() < 0.6:
        gran = "attr"
    rs = core.rng(run_seed, "sched")
    kind = rs.choice(["random", "pct", "park", "park", "park"])
    cfg = dict(kind=kind, seed=rs.getrandbits(48))
    if kind == "random":
        cfg["p"] = rs.choice([0.005, 0.02, 0.05, 0.15, 0.4]) \
            if "line" in gran else rs.choice([0.05, 0.15, 0.3, 0.5])
    elif kind == "pct":
        cfg["d"] = rs.choice([2, 2, 3])
        cfg["kfrac"] = True      # change points are fractions of the
        cfg["fr"] = [rs.random() for _ in range(cfg["d"] - 1)]   # run length
    else:
        cfg["park_fr"] = [[rs.randrange(nthreads), rs.random()]
                          for _ in range(rs.choice([1, 1, 2]) if not deep
                                         else rs.choice([2, 3, 4]))]
    prog = dict(curve=cname, scen=scen, shared=shared, threads=threads,
                gran=gran, sched=cfg)
    if r.random() < 0.2:
        prog["interrupt"] = dict(thread=r.randrange(nthreads), fr=r.random())
    return prog


# -------------------------------------------------------------- execution --

_inst = {}


def _install():
    if not _inst:
        core.lib()
        from ecdsa import ellipticcurve, keys, ecdsa as lecdsa
        sched.install(line_modules=[ellipticcurve, keys, lecdsa])
        from ecdsa import numbertheory, util, rfc6979, der
        sched.install_secondary([numbertheory, util, rfc6979, der])
        for cls in (ellipticcurve.PointJacobi, lecdsa.Public_key,
                    lecdsa.Private_key, keys.VerifyingKey, keys.SigningKey):
            sched.wrap_attr_class(cls)
        _inst["classes"] = (ellipticcurve.PointJacobi, lecdsa.Public_key,
                            lecdsa.Private_key, keys.VerifyingKey,
                            keys.SigningKey)
        sched._auto_share_classes = _inst["classes"]
    return _inst


class World(object):
    """The shared objects of one run, built fresh from the program."""

    def __init__(self, prog):
        from ecdsa import ellipticcurve as le, keys as lk
        self.le = le
        self.lk = lk
        mc = self.mc = mcurves.by_name(prog["curve"])
        self.curve = libx.fresh_lib_curve(mc)
        self.objs = []      # (label, kind, object, model value)
        self.sigs = {}
        p = mc.p
        for i, sp in enumerate(prog["shared"]):
            if sp["kind"] == "gen":
                self.objs.append(("G", "point", self.curve.generator, mc.G))
            elif sp["kind"] == "point":
                val = ec.mul(mc, sp["k"], mc.G)
                z = sp["z"] % p or 1
                x, y = val
                order = mc.n if sp.get("order") else None
                pt = le.PointJacobi(self.curve.curve, x * z * z % p,
                                    y * z * z * z % p, z, order,
                                    bool(sp.get("gen")) and bool(order))
                self.objs.append(("P%d" % i, "point", pt, val))
            else:
                d = sp["d"]
                hf = libx.hash_by_name(sp["hash"])
                sk = lk.SigningKey.from_secret_exponent(d, self.curve, hf)
                Q = ec.mul(mc, d, mc.G)
                if sp.get("unscaled"):
                    # a key whose public point is not yet scaled (as keys
                    # from public-key recovery are)
                    z = sp["z"] % p or 1
                    pt = le.PointJacobi(self.curve.curve, Q[0] * z * z % p,
                                        Q[1] * z * z * z % p, z, mc.n)
                    vk = lk.VerifyingKey.from_public_point(
                        pt, self.curve, hf, validate_point=False)
                    sk.verifying_key = vk
                elif sp.get("affine"):
                    vk = lk.VerifyingKey.from_public_point(
                        le.Point(self.curve.curve, Q[0], Q[1]), self.curve,
                        hf)
                    sk.verifying_key = vk
                self.objs.append(("K%d" % i, "key", sk, (d, Q, sp["hash"])))

    def shared_list(self):
        out = []
        for label, kind, o, val in self.objs:
            if kind == "point":
                out.append((label, o))
            else:
                sk = o
                out.append((label + ".sk", sk))
                out.append((label + ".vk", sk.verifying_key))
                out.append((label + ".priv", sk.privkey))
                out.append((label + ".pub", sk.verifying_key.pubkey))
                if sk.privkey.public_key is not sk.verifying_key.pubkey:
                    out.append((label + ".pub2", sk.privkey.public_key))
                out.append((label + ".pt", sk.verifying_key.pubkey.point))
                out.append(("G", self.curve.generator))
        return out


def norm_pt(w, obj):
    le = w.le
    if obj is le.INFINITY:
        return "O"
    if isinstance(obj, le.Point):
        return "O" if obj.x() is None else [int(obj.x()), int(obj.y())]
    if obj == le.INFINITY:
        return "O"
    return [int(obj.x()), int(obj.y())]


def do_op(w, op):
    """Execute one operation against world `w`; returns a JSON-able value."""
    name = op["op"]
    label, kind, o, val = w.objs[op["s"] % len(w.objs)]
    label2, kind2, o2, val2 = w.objs[op["t"] % len(w.objs)]
    mc = w.mc
    if kind == "point":
        if name == "mul":
            return norm_pt(w, o * op["k"])
        if name == "rmul":
            return norm_pt(w, op["k"] * o)
        if name == "add":
            return norm_pt(w, o + o2)
        if name == "eq":
            return [bool(o == o2), bool(o2 == o), bool(o != o2)]
        if name == "x":
            return int(o.x())
        if name == "y":
            return int(o.y())
        if name == "xy":
            return [int(o.x()), int(o.y())]
        if name == "scale":
            r_ = o.scale()
            return [r_ is o, int(r_.x()), int(r_.y())]
        if name == "to_affine":
            return norm_pt(w, o.to_affine())
        if name == "double":
            return norm_pt(w, o.double())
        if name == "neg":
            return norm_pt(w, -o)
        if name == "mul_add":
            return norm_pt(w, o.mul_add(op["a"], o2, op["b"]))
        if name == "mul_add_other":
            return norm_pt(w, w.curve.generator.mul_add(op["a"], o, op["b"]))
        if name == "pickle":
            c = pickle.loads(pickle.dumps(o))
            # the copy must be a complete, usable point
            return [norm_pt(w, c), norm_pt(w, c * 5), norm_pt(w, c * (mc.n - 2)),
                    norm_pt(w, c * 77)]
        raise ValueError(name)
    sk = o
    vk = sk.verifying_key
    d, Q, hname = val
    hf = libx.hash_by_name(hname)
    if name == "sign_det":
        return bytes(sk.sign_deterministic(core.unhx(op["msg"]),
                                           hashfunc=hf)).hex()
    if name == "sign_k":
        from ecdsa.ecdsa import RSZeroError
        try:
            return bytes(sk.sign(core.unhx(op["msg"]), hashfunc=hf,
                                 k=op["k"])).hex()
        except RSZeroError:
            return "RSZero"
    if name == "sign_ent":
        from ecdsa.ecdsa import RSZeroError
        stream = core.unhx(op["stream"])
        pos = [0]

        def ent(nb):
            out = bytes(stream[(pos[0] + i) % len(stream)] for i in range(nb))
            pos[0] += nb
            return out
        try:
            return bytes(sk.sign(core.unhx(op["msg"]), entropy=ent,
                                 hashfunc=hf)).hex()
        except RSZeroError:
            return "RSZero"
    if name in ("verify", "verify_digest"):
        msg = core.unhx(op["msg"])
        sig = w.sigs.get((op["s"] % len(w.objs), op["msg"]))
        try:
            if name == "verify":
                return vk.verify(sig, msg, hashfunc=hf)
            return vk.verify_digest(sig, hf(msg).digest(),
                                    allow_truncate=True)
        except w.lk.BadSignatureError:
            return "BadSignature"
    if name == "precompute":
        vk.precompute(lazy=op["lazy"])
        return None
    if name == "to_string":
        return bytes(vk.to_string(op["enc"])).hex()
    if name == "pub_x":
        pt = vk.pubkey.point
        return [int(pt.x()), int(pt.y())]
    if name == "pt_mul":
        # plain multiplication of the key's own point (what ECDH does)
        return norm_pt(w, vk.pubkey.point * op["k"])
    if name == "vk_pickle":
        c = pickle.loads(pickle.dumps(vk))
        return bytes(c.to_string()).hex()
    raise ValueError(name)


def prepare_sigs(w, prog):
    """Signatures the verify operations will check (made with the model, so
    no library state is touched before the run)."""
    for th in prog["threads"]:
        for op in th:
            if op["op"] in ("verify", "verify_digest"):
                idx = op["s"] % len(w.objs)
                label, kind, o, val = w.objs[idx]
                if kind != "key":
                    continue
                d, Q, hname = val
                hf = libx.hash_by_name(hname)
                e = ec.digest_to_int(hf(core.unhx(op["msg"])).digest(), w.mc.n)
                k = 1 + (int.from_bytes(hashlib.sha256(
                    op["msg"].encode()).digest(), "big") % (w.mc.n - 1))
                rs = None
                while rs is None:
                    rs = ec.ecdsa_sign(w.mc, d, e, k)
                    k = k % (w.mc.n - 1) + 1
                L = w.mc.nlen
                w.sigs[(idx, op["msg"])] = rs[0].to_bytes(L, "big") + \
                    rs[1].to_bytes(L, "big")


def run_threads(prog, w, sched_cfg, kinds, interrupt=None):
    s = sched.Scheduler(sched_cfg, step_cap=STEP_CAP, kinds=kinds)
    results = [[None] * len(th) for th in prog["threads"]]
    probes = {}

    def body_for(ti, ops):
        def body(t):
            for oi, op in enumerate(ops):
                try:
                    v = do_op(w, op)
                    results[ti][oi] = ("ok", core.jsonable(v))
                except sched.SimInterrupt:
                    results[ti][oi] = ("interrupted", None)
                except sched.SimAbort:
                    raise
                except Exception as e:
                    results[ti][oi] = ("exc", type(e).__name__ + ": " +
                                       str(e)[:200])
        return body
    for ti, ops in enumerate(prog["threads"]):
        s.spawn(body_for(ti, ops))
    if interrupt is not None:
        s.threads[interrupt[0] % len(s.threads)].interrupt_at = interrupt[1]
    sched.set_shared(w.shared_list())
    s.on_switch = None
    s.run()
    sched.set_shared([])
    return s, results


def _where_probe(s):
    """Reach probes: did a pre-emption land inside table construction or
    inside scale()?  (function name of the pre-empted frame)"""
    return s.switch_sites


def _kinds(prog):
    gran = prog["gran"]
    kinds = {"explicit", "lock"}
    if gran == "helpers":
        # only the lines of the helper modules (first-use scenario)
        kinds.add("line2")
        return kinds
    if "attr" in gran:
        kinds.add("attr")
    if "line" in gran:
        kinds.add("line")
    if gran == "line_all":
        # also every line of the helper modules (numbertheory, util,
        # rfc6979, der): module-level state there is shared by everything
        kinds.add("line2")
    return kinds


def sequential_phase(prog):
    """Each thread's program on private fresh objects, one after another:
    the expected values and the per-thread step counts."""
    _install()
    kinds = _kinds(prog)
    expected = []
    lengths = []
    for ti in range(len(prog["threads"])):
        w0 = World(prog)
        prepare_sigs(w0, prog)
        sub = dict(prog, threads=[prog["threads"][ti]])
        s0, res0 = run_threads(sub, w0, dict(kind="serial", seed=0), kinds)
        if s0.abort_reason:
            raise core.HarnessError("sequential phase aborted: %s"
                                    % s0.abort_reason)
        expected.append(res0[0])
        lengths.append(max(1, s0.threads[0].steps))
    return expected, lengths


def execute(prog):
    if "first_use" in prog:
        # replay of a first-use finding: the whole batch prefix, here (this
        # must be a fresh interpreter for the window to exist)
        out = core.new_outcome()
        for p_ in prog["first_use"]:
            out = execute(p_)
            if out.get("violation"):
                return out
        return out
    _install()
    out = core.new_outcome()
    mc = mcurves.by_name(prog["curve"])
    kinds = _kinds(prog)
    nth = len(prog["threads"])
    if nth == 0 or not prog["shared"]:
        return out
    # ---- phase 1: sequential, private fresh objects -> expected values and
    # per-thread step counts (given with the program when this interpreter
    # must not touch the library before the concurrent phase)
    if prog.get("expected") is not None:
        expected = [[tuple(x) if x is not None else None for x in th]
                    for th in prog["expected"]]
        lengths = prog["lengths"]
    else:
        expected, lengths = sequential_phase(prog)
    # ---- phase 2: concurrent on shared objects
    cfg = dict(prog["sched"])
    if cfg["kind"] == "park" and "parks" not in cfg:
        cfg["parks"] = [[t % nth, 1 + int(fr * lengths[t % nth])]
                        for t, fr in cfg.get("park_fr", [])]
    if cfg["kind"] == "pct" and cfg.get("kfrac"):
        total = sum(lengths)
        cfg["k"] = total
        cfg["change_points"] = sorted(1 + int(f * total) for f in cfg["fr"])
    intr = None
    if prog.get("interrupt"):
        it = prog["interrupt"]
        ti = it["thread"] % nth
        intr = (ti, it.get("at") or 1 + int(it["fr"] * lengths[ti]))
    w = World(prog)
    prepare_sigs(w, prog)
    s, results = run_threads(prog, w, cfg, kinds, intr)
    out["steps"] = s.global_step
    out["ops"] = sum(len(t) for t in prog["threads"])
    out["nontrivial"] = s.preemptions >= 1
    out["digest"] = hashlib.sha256(repr(s.events).encode()).hexdigest()[:16]
    out["trace"] = s.trace
    core.bump(out["faults"], "preemption", s.preemptions)
    for site in s.switch_sites:
        if "_maybe_precompute" in site:
            core.bump(out["probes"], "switch_inside_table_build")
        if site.startswith("scale"):
            core.bump(out["probes"], "switch_inside_scale")
        if site.startswith("mul_add"):
            core.bump(out["probes"], "switch_inside_mul_add")
        if site.startswith("precompute"):
            core.bump(out["probes"], "switch_inside_key_precompute")
    ninter = sum(t.interrupted for t in s.threads)
    if ninter:
        core.bump(out["faults"], "interrupt", ninter)
    if s.abort_reason == "step-cap":
        out["violation"] = core.violation(
            ID, "progress", "step-cap", "run exceeded %d steps" % STEP_CAP)
        return out
    if s.abort_reason == "deadlock":
        out["violation"] = core.violation(
            ID, "deadlock", "library-locks",
            "threads blocked for ever on locks the library takes: %r" % (
                s.blocked_graph,), dict(trace=s.trace, events=s.events[-60:]))
        return out
    if s.abort_reason:
        raise core.HarnessError("concurrent phase aborted: %s (%r)" % (
            s.abort_reason, s.blocked_graph))
    for t in s.threads:
        if t.exc is not None:
            raise core.HarnessError("thread wrapper died: %r" % (t.exc,))
    # ---- oracle 1: every completed operation returned its sequential value
    for ti in range(nth):
        for oi, op in enumerate(prog["threads"][ti]):
            got = results[ti][oi]
            want = expected[ti][oi]
            if got is None or got[0] == "interrupted":
                continue
            if want[0] != "ok":
                # the operation fails even sequentially: not C18's business
                continue
            if got[0] == "exc":
                out["violation"] = core.violation(
                    ID, "raises", "%s-%s" % (op["op"],
                                             got[1].split(":")[0]),
                    "thread %d op %d (%s) raised %s under this interleaving; "
                    "sequentially it returns %r" % (ti, oi, op["op"], got[1],
                                                    want[1]),
                    dict(thread=ti, op=op, trace=s.trace,
                         events=s.events[-80:]))
                return out
            if got[1] != want[1]:
                out["violation"] = core.violation(
                    ID, "value", op["op"],
                    "thread %d op %d (%s) returned %r; run sequentially it "
                    "returns %r" % (ti, oi, op["op"], got[1], want[1]),
                    dict(thread=ti, op=op, got=got[1], want=want[1],
                         trace=s.trace, events=s.events[-80:]))
                return out
    # ---- oracle 2: afterwards every shared object still denotes its value
    # and its table (observed through behaviour) gives correct products
    v = post_check(w, mc)
    if v:
        v["detail"] = dict(info=v.get("detail"), trace=s.trace,
                           events=s.events[-80:])
        out["violation"] = v
    return out


BATTERY = [1, 2, 3, 5, 7, 11, 64, 77]


def post_check(w, mc):
    for label, kind, o, val in w.objs:
        try:
            if kind == "point":
                pts = [(label, o, val)]
            else:
                d, Q, hname = val
                sk = o
                pts = [(label + ".pt", sk.verifying_key.pubkey.point, Q),
                       (label + ".G", w.curve.generator, mc.G)]
                raw = bytes(sk.verifying_key.to_string())
                if raw != ec.encode_point(mc, Q, "raw"):
                    return core.violation(
                        ID, "after", "key-to_string",
                        "after the run the key's to_string() is %s" % raw.hex())
                hf = libx.hash_by_name(hname)
                sig = sk.sign_deterministic(b"after", hashfunc=hf)
                if sk.verifying_key.verify(sig, b"after", hashfunc=hf) \
                        is not True:
                    return core.violation(ID, "after", "key-sign-verify",
                                          "after the run the key cannot "
                                          "verify its own signature")
            for lab, pt, pv in pts:
                got = norm_pt(w, pt)
                if got != list(pv):
                    return core.violation(
                        ID, "after", "value",
                        "after the run shared point %s denotes %r, its value "
                        "is %r" % (lab, got, list(pv)))
                for k in BATTERY + [mc.n - 1, mc.n + 1]:
                    g = norm_pt(w, pt * k)
                    want = ec.mul(mc, k, pv)
                    want = "O" if want is ec.O else list(want)
                    if g != want:
                        return core.violation(
                            ID, "after", "products",
                            "after the run %s * %d = %r, want %r (damaged "
                            "table or coordinates)" % (lab, k, g, want))
        except Exception as e:
            return core.violation(
                ID, "after", "raises-" + type(e).__name__,
                "after the run, using shared object %s raised %r" % (label, e))
    return None


def to_trace(prog):
    """The same run with the scheduler's decisions written out: every context
    switch as [thread, its local step, next thread]."""
    import copy
    out = execute(prog)
    tr = out.get("trace")
    if tr is None:
        return None
    p2 = copy.deepcopy(prog)
    p2["sched"] = dict(kind="trace", seed=0, trace=[list(x) for x in tr])
    return p2


# ---------------------------------------------------------------------------
# first use in the process: lazily initialised module-level state in the
# helper modules (a per-hash template, a size cache ...) exists once per
# interpreter, so a race on its initialisation can only be met by the first
# run that reaches it.  A batch of programs, each using another hash function,
# is executed in *fresh interpreters* (concurrent phase only: the expected
# values are computed here, in the parent), switching only at helper-module
# lines.

FIRST_USE_HASHES = ["sha1", "sha224", "sha256", "sha384", "sha512", "md5",
                    "sha3_256", "synth8", "synth20", "synth32", "synth48",
                    "synth64"]


def _first_use_programs(seed, tier, batch):
    progs = []
    for j, hname in enumerate(FIRST_USE_HASHES):
        r = core.rng(core.derive(seed, "C18-first", tier, batch, j), "cfg")
        mc = mcurves.by_name(r.choice(TOYS))
        nkeys = r.choice([1, 1, 2])
        shared = [dict(kind="key", d=libx.key_scalar(r, mc.n), unscaled=False,
                       z=2, hash=hname) for _ in range(nkeys)]
        threads = []
        for _ in range(2):
            ops = []
            for _ in range(r.choice([1, 1, 2])):
                ops.append(dict(op=r.choice(["sign_det", "sign_det",
                                             "sign_det", "verify",
                                             "sign_k", "to_string"]),
                                s=r.randrange(nkeys), t=0,
                                msg=r.choice(["00", "a5a5", "0102"]),
                                k=libx.key_scalar(r, mc.n),
                                enc="uncompressed"))
            threads.append(ops)
        progs.append(dict(curve=mc.name, scen="first_use", shared=shared,
                          threads=threads, gran="helpers",
                          # thread 0 runs first and is parked once inside
                          # its first operation; thread 1 then runs through
                          sched=dict(kind="park", seed=r.getrandbits(48),
                                     order=[1, 0],
                                     park_fr=[[0, r.random() * 0.7]])))
    return progs


def _first_use_worker():
    """Runs in a fresh interpreter: programs (with expected values) on stdin,
    one JSON line per violating program on stdout."""
    import json
    import sys
    core.lib()
    progs = json.loads(sys.stdin.read())
    res = []
    for i, p_ in enumerate(progs):
        try:
            out = execute(p_)
        except core.HarnessError as e:
            res.append(dict(index=i, harness=str(e)))
            continue
        if out.get("violation"):
            res.append(dict(index=i, violation=out["violation"]))
    print("RESULT " + json.dumps(core.jsonable(res)))


def _run_first_use_batch(progs):
    import json
    import os
    import subprocess
    import sys
    p = subprocess.run(
        [sys.executable, "-B", "-c",
         "import sys; sys.path.insert(0, %r); from dsim.props import c18; "
         "c18._first_use_worker()" % core.VERIF],
        input=json.dumps(core.jsonable(progs)), capture_output=True,
        text=True, timeout=900, env=dict(os.environ, PYTHONHASHSEED="3"))
    line = [l for l in p.stdout.splitlines() if l.startswith("RESULT ")]
    if p.returncode or not line:
        raise core.HarnessError("first-use worker failed: " + p.stderr[-600:])
    return json.loads(line[0][7:])


def extra(tier, seed):
    import concurrent.futures as cf
    import time
    t0 = time.time()
    nb = 128 if tier == "quick" else 800
    batches = []
    for b in range(nb):
        progs = _first_use_programs(seed, tier, b)
        for p_ in progs:
            exp, lens = sequential_phase(p_)
            p_["expected"] = exp
            p_["lengths"] = lens
        batches.append(progs)
    viols = []
    with cf.ThreadPoolExecutor(max_workers=min(16, os.cpu_count() or 1)) as ex:
        for b, res in enumerate(ex.map(_run_first_use_batch, batches)):
            for r_ in res:
                if "harness" in r_:
                    raise core.HarnessError(r_["harness"])
                # replayed as the batch prefix up to the violating program in
                # a fresh interpreter
                viols.append(dict(
                    index=-1000 - b, run_seed=0,
                    program=dict(first_use=batches[b][:r_["index"] + 1]),
                    violation=r_["violation"]))
    n = nb * len(FIRST_USE_HASHES)
    return dict(evaluations=n, distinct_nontrivial=n,
                samples=[dict(kind="first use in a fresh interpreter",
                              interpreters=nb,
                              programs_per_interpreter=len(FIRST_USE_HASHES))],
                wall_s=time.time() - t0, violations=viols,
                report=dict(first_use_interpreters=nb, first_use_programs=n))
