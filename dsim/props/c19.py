from .. import core, hist
from ..model import curves as mcurves
from ._histcommon import *  # noqa: F401,F403

ID = "C19"
RULE = ("seeded histories (5-60 ops over points AND keys: arithmetic, "
        "rescaling, affine conversion, comparisons, lazy/eager precompute, "
        "pickling, signing, verifying, serialising, reloading) with the "
        "freshness oracle after every step; interrupt and whole-pool pickle "
        "restart faults in ~45% of runs; odd-order toy curves and 8% named "
        "curves; non-trivial = >= 2 state-changing operations or >= 1 fault; "
        "distinct = distinct sha256 of the operation/outcome log")
REQUIRED_PROBES = {"quick": ["precompute"], "thorough": ["precompute"]}


def budget(tier):
    if tier == "quick":
        return dict(runs=20000, wall=80, chunk=150)
    return dict(runs=800000, wall=840, chunk=600)


def execute(prog):
    if isinstance(prog, dict) and prog.get("differential"):
        return _execute_differential(prog)
    return hist.execute(prog)


def _execute_differential(prog):
    """Replay of a process-history finding: the last run of the sequence must
    give the same results as the same run executed first in this process...
    which it cannot be any more; so the judge is: run the whole sequence here
    (fresh interpreter when replayed through ./check replay) and compare the
    last run's result digest with the digest of the same program executed in
    a fresh interpreter on its own."""
    import json
    import os
    import subprocess
    import sys
    out = core.new_outcome()
    last = None
    for p_ in prog["multi"]:
        last = hist.execute(p_)
        if last.get("violation"):
            return last
    p = subprocess.run(
        [sys.executable, "-B", "-c",
         "import sys, json; sys.path.insert(0, %r); "
         "from dsim import core, hist; core.lib(); "
         "print('RD ' + hist.execute(json.loads(sys.stdin.read()))['rdigest'])"
         % core.VERIF], input=json.dumps(core.jsonable(prog["alone"])),
        capture_output=True, text=True, timeout=600,
        env=dict(os.environ, PYTHONHASHSEED="5"))
    line = [l for l in p.stdout.splitlines() if l.startswith("RD ")]
    if not line:
        raise core.HarnessError("differential judge failed: " + p.stderr[-500:])
    alone = line[0][3:]
    if last is not None and last.get("rdigest") != alone:
        out["violation"] = core.violation(
            ID, "process-history", "results-differ",
            "after %d earlier runs in this interpreter the last run's result "
            "digest is %s; executed alone in a fresh interpreter it is %s"
            % (len(prog["multi"]) - 1, last.get("rdigest"), alone))
    return out


def generate(run_seed, tier):
    return hist.gen_program("C19", run_seed, tier, odd_toys(), named_small(),
                            (5, 60 if tier == "quick" else 120), named_frac=0.08)


# ---------------------------------------------------------------------------
# process-history differential: the normalised results of a run must not
# depend on what the same interpreter did before (hidden module-level state
# in the library: a cache keyed too coarsely, a memo, a counter).  N runs are
# executed in a fresh interpreter in forward order and in another one in
# reversed order (different PYTHONHASHSEED); per-run result digests must agree.

def _history_worker(seed, tier, n, order):
    core.lib()
    import sys as _sys
    mod = _sys.modules[__name__]
    idx = list(range(n))
    if order == "rev":
        idx.reverse()
    res = {}
    for i in idx:
        prog = generate(core.derive(seed, "C19-hist", tier, i), tier)
        out = core.execute_any(mod, prog)
        v = out.get("violation")
        res[str(i)] = [out.get("rdigest"), v["cls"] if v else None]
    import json as _json
    print("RESULT " + _json.dumps(res, sort_keys=True))


def extra(tier, seed):
    import json
    import os
    import subprocess
    import sys
    import time
    t0 = time.time()
    n = 160 if tier == "quick" else 1500
    outs = []
    for hs, order in (("11", "fwd"), ("424242", "rev")):
        env = dict(os.environ, PYTHONHASHSEED=hs)
        p = subprocess.run(
            [sys.executable, "-B", "-c",
             "import sys; sys.path.insert(0, %r); "
             "from dsim.props import c19; c19._history_worker(%d, %r, %d, %r)"
             % (core.VERIF, seed, tier, n, order)],
            capture_output=True, text=True, env=env, timeout=3000)
        line = [l for l in p.stdout.splitlines() if l.startswith("RESULT ")]
        if p.returncode or not line:
            raise core.HarnessError("history worker failed: %s"
                                    % p.stderr[-800:])
        outs.append(json.loads(line[0][7:]))
    viols = []
    diff = sorted((int(i) for i in outs[0] if outs[0][i] != outs[1][i]))
    if diff:
        i = diff[0]
        # in the reversed order run i was preceded by runs n-1 .. i+1
        hist_idx = list(range(n - 1, i, -1)) + [i]
        progs = [generate(core.derive(seed, "C19-hist", tier, j), tier)
                 for j in hist_idx]
        alone = outs[0][str(i)] if i == 0 else None
        v = core.violation(
            ID, "process-history", "results-differ",
            "run %d gives result digest %r when the interpreter executed runs "
            "0..%d before it, and %r when it executed runs %d..%d before it: "
            "some result depends on hidden process-global state in the "
            "library" % (i, outs[0][str(i)], i - 1, outs[1][str(i)], n - 1,
                         i + 1))
        viols.append(dict(index=-1 - i, run_seed=0,
                          program=dict(multi=progs, differential=True,
                                       alone=progs[-1]),
                          violation=v))
    return dict(evaluations=2 * n, distinct_nontrivial=n,
                samples=[dict(kind="process-history differential", runs=n,
                              orders=["forward", "reversed"],
                              differing_runs=diff[:5])],
                wall_s=time.time() - t0, violations=viols,
                report=dict(process_history_runs=n,
                            differing=len(diff)))
