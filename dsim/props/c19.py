from .. import core, hist
from ..model import curves as mcurves
from ._histcommon import *  # noqa: F401,F403

ID = "C19"
RULE = ("seeded histories (5-60 ops over points AND keys: arithmetic, "
        "rescaling, affine conversion, comparisons, lazy/eager precompute, "
        "pickling, signing, verifying, serialising, reloading) with the "
        "freshness oracle after every step; interrupt and whole-pool pickle "
        "restart faults in ~45% of runs; odd-order toy curves and 8% named "
        "curves; non-trivial = >= 2 state-changing operations or >= 1 fault; "
        "distinct = distinct sha256 of the operation/outcome log")
REQUIRED_PROBES = {"quick": ["precompute"], "thorough": ["precompute"]}
HISTORY_DIFF = {"quick": 160, "thorough": 1500}


def budget(tier):
    if tier == "quick":
        return dict(runs=40000, wall=80, chunk=150)
    return dict(runs=800000, wall=840, chunk=600)


def generate(run_seed, tier):
    return hist.gen_program("C19", run_seed, tier, odd_toys(), named_small(),
                            (5, 60 if tier == "quick" else 120), named_frac=0.08)
