"""C20 - reader-writer lock: writers exclusive, readers shared, no deadlock.

Real RWLock code on simulated mutexes (ecdsa._rwlock.threading is replaced by
a shim), driven by the seeded thread scheduler with a pre-emption possible at
every bytecode instruction of _rwlock.py, at every mutex operation and inside
the critical section.
"""
import hashlib

from .. import core, sched

ID = "C20"
LEVEL = "exploration"
RULE = ("seeded schedules of 1-3 reader and 0-2 writer threads doing 1-3 "
        "acquire/critical-section/release rounds on a real RWLock over "
        "simulated mutexes (plus readers-only rendezvous runs; 30% of runs "
        "let a thread read in one round and write in another; 20% use two "
        "lock instances with nested use in a fixed order, other instances "
        "created in between; some locks have served hundreds of rounds "
        "before; 20% of runs stall one thread for 0.1-1000 simulated "
        "seconds - timed waits, if the code has any, expire on the "
        "simulated clock - and 30% declare one thread the main thread); a run is "
        "non-trivial if >= 1 pre-emption happened; distinct = distinct "
        "sha256 of the (thread, mutex-event) sequence")
COMPONENTS_REAL = ["ecdsa._rwlock.RWLock", "ecdsa._rwlock._LightSwitch",
                   "real OS threads (parked/released one at a time)"]
COMPONENTS_STUB = ["threading.Lock -> SimLock (blocking decided by the "
                   "scheduler; wake-up order is a scheduler choice; a timed "
                   "acquire expires on the simulated clock, which jumps to the "
                   "next timer only when no thread can run)",
                   "threading.main_thread() (may name a simulated thread)"]
ASSUMPTIONS = ["one bytecode instruction is atomic (GIL semantics)",
               "threading.Lock semantics as modelled by SimLock: non-owner "
               "release allowed, no fairness",
               "seeded search, not enumeration: a clean batch is evidence, "
               "not proof"]
SHRINK = [["threads"], ["sched", "trace"], ["sched", "parks"],
          ["sched", "stalls"]]
REQUIRED_PROBES = {"quick": ["two_readers_inside", "writer_blocked_reader",
                             "acquire_blocked"],
                   "thorough": ["two_readers_inside", "writer_blocked_reader",
                                "acquire_blocked"]}
STEP_CAP = 20000


def budget(tier):
    if tier == "quick":
        return dict(runs=80000, wall=75, chunk=300)
    return dict(runs=900000, wall=840, chunk=400)


def gen_sched(r, nthreads, est_len):
    kind = r.choice(["random", "random", "pct", "pct", "park", "park"])
    cfg = dict(kind=kind, seed=r.getrandbits(48))
    if kind == "random":
        cfg["p"] = r.choice([0.02, 0.05, 0.1, 0.2, 0.35, 0.5])
    elif kind == "pct":
        cfg["d"] = r.choice([1, 2, 2, 3, 3, 4])
        cfg["k"] = r.choice([30, 100, 300, 1000, 3000])
    else:
        parks = []
        for _ in range(r.choice([1, 1, 2, 3])):
            parks.append([r.randrange(nthreads), r.randrange(1, est_len + 1)])
        cfg["parks"] = parks
    return cfg


def _round(r, role, nlocks, allow_nested):
    rd = dict(l=r.randrange(nlocks), role=role, cs=r.randrange(0, 4))
    if allow_nested and nlocks == 2 and r.random() < 0.35:
        # nested use of the second lock while holding the first; always in
        # the order lock 0 -> lock 1, so the workload itself cannot create a
        # lock-order cycle
        rd["l"] = 0
        rd["inner"] = dict(l=1, role=r.choice(["r", "r", "w"]),
                           cs=r.randrange(0, 3))
    return rd


def generate(run_seed, tier):
    r = core.rng(run_seed, "config")
    scenario = "rendezvous" if r.random() < 0.15 else "mixed"
    nlocks = 1
    threads = []
    if scenario == "rendezvous":
        for _ in range(r.choice([2, 2, 3])):
            threads.append(dict(rounds=[dict(l=0, role="r",
                                             cs=r.randrange(0, 3))]))
    else:
        nlocks = 2 if r.random() < 0.2 else 1
        mixed_roles = r.random() < 0.3
        nr = r.choice([1, 1, 2, 2, 3])
        nw = r.choice([0, 1, 1, 2, 2])
        if tier == "thorough" and r.random() < 0.15:
            nr, nw = r.choice([(3, 2), (4, 2), (3, 3)])
        if nr + nw < 2:
            nw = 1
        for role in ["r"] * nr + ["w"] * nw:
            rounds = []
            for _ in range(r.choice([1, 1, 2, 3])):
                rl = role
                if mixed_roles and r.random() < 0.5:
                    # the same thread reads in one round and writes in another
                    rl = "w" if role == "r" else "r"
                rounds.append(_round(r, rl, nlocks, True))
            threads.append(dict(rounds=rounds))
        r.shuffle(threads)
    gran = r.choice(["instr", "instr", "lock"])
    est = 100 if gran == "instr" else 12
    rs = core.rng(run_seed, "sched")
    sc = gen_sched(rs, len(threads),
                   est * max(len(t["rounds"]) for t in threads))
    if rs.random() < 0.2:
        # fault: one thread stalls for a long simulated time at some step
        # (timed waits of the others, if the code has any, expire meanwhile)
        sc["stalls"] = [[rs.randrange(len(threads)),
                         rs.randrange(1, est * 2 + 1),
                         rs.choice([0.1, 5.0, 100.0, 1000.0])]
                        for _ in range(rs.choice([1, 1, 2]))]
    if rs.random() < 0.3:
        # one of the threads is the program's main thread
        sc["main_tid"] = rs.randrange(len(threads))
    return dict(scenario=scenario, threads=threads, gran=gran, locks=nlocks,
                warmup=r.choice(["none", "none", "w", "r", "rw"]),
                # a lock that has already served many rounds (counters far
                # from their initial values), and other RWLock instances
                # created before / between the ones used
                warm_rounds=r.choice([0] * 16 + [40, 560, 640]),
                spacer=r.choice([0] * 8 + [1, 2, 7, 8, 15, 16,
                                           r.randrange(0, 24)]),
                sched=sc)


_setup = {}


def _install():
    """Compile _rwlock.py from the working tree once; enable INSTRUCTION
    events on its code objects.  The module is re-executed for every run with
    `threading` replaced by the shim *at import time*, so that locks created
    at import (default arguments, module globals) are simulated and fresh."""
    if not _setup:
        import os
        import sys
        import threading as real_threading
        core.lib()
        path = os.path.join(core.REPO, "src", "ecdsa", "_rwlock.py")
        with open(path) as f:
            src = f.read()
        code = compile(src, path, "exec")
        cos = []

        def walk(co):
            cos.append(co)
            for c in co.co_consts:
                if hasattr(c, "co_code"):
                    walk(c)
        walk(code)
        mon = sched._mon
        sched.install()
        for co in cos:
            ev = mon.get_local_events(sched.TOOL, co) | mon.events.INSTRUCTION
            mon.set_local_events(sched.TOOL, co, ev)
            sched._state["instr_codes"].add(co)
        _setup.update(code=code, path=path, real=real_threading)
    return _setup


def fresh_module():
    import sys
    st = _install()
    shim = sched.ThreadingShim(st["real"])
    ns = dict(__name__="ecdsa._rwlock", __package__="ecdsa",
              __file__=st["path"], __builtins__=__builtins__)
    saved = sys.modules["threading"]
    sys.modules["threading"] = shim
    try:
        exec(st["code"], ns)
    finally:
        sys.modules["threading"] = saved
    return ns


class Monitor(object):
    def __init__(self):
        self.r = 0
        self.w = 0
        self.bad = None
        self.max_r = 0
        self.states = set()

    def enter(self, role, tid):
        if role == "r":
            if self.w:
                self.bad = self.bad or ("reader-with-writer",
                                        "reader %d entered while a writer "
                                        "is inside" % tid)
            self.r += 1
            self.max_r = max(self.max_r, self.r)
        else:
            if self.w:
                self.bad = self.bad or ("two-writers", "writer %d entered "
                                        "while another writer is inside" % tid)
            if self.r:
                self.bad = self.bad or ("writer-with-reader",
                                        "writer %d entered while %d reader(s) "
                                        "inside" % (tid, self.r))
            self.w += 1

    def leave(self, role):
        if role == "r":
            self.r -= 1
        else:
            self.w -= 1


def execute(prog):
    out = core.new_outcome()
    sched.SimLock._count = 0
    try:
        rw = fresh_module()
    except Exception as e:
        out["violation"] = core.violation(
            ID, "exception", "import-" + type(e).__name__,
            "executing _rwlock.py raised %r" % (e,))
        return out
    return _execute(prog, rw, out)


def _execute(prog, rw, out):
    nlocks = prog.get("locks", 1)
    try:
        locks_ = []
        spare = []
        for li in range(nlocks):
            locks_.append(rw["RWLock"]())
            spare.extend(rw["RWLock"]() for _ in range(prog.get("spacer", 0)))
        for lock in locks_:
            for wi in range(prog.get("warm_rounds", 0)):
                if wi % 2:
                    lock.writer_acquire()
                    lock.writer_release()
                else:
                    lock.reader_acquire()
                    lock.reader_release()
            for ch in prog.get("warmup", "none"):
                if ch == "w":
                    lock.writer_acquire()
                    lock.writer_release()
                elif ch == "r":
                    lock.reader_acquire()
                    lock.reader_release()
    except Exception as e:
        out["violation"] = core.violation(
            ID, "reusable", "warmup-" + type(e).__name__,
            "sequential warm-up on a fresh lock failed: %r" % (e,))
        return out
    kinds = None if prog["gran"] == "instr" else {"lock", "explicit"}
    s = sched.Scheduler(prog["sched"], step_cap=STEP_CAP, kinds=kinds)
    mons = [Monitor() for _ in range(nlocks)]
    nthreads = len(prog["threads"])
    rendezvous = prog["scenario"] == "rendezvous"
    nreaders = nthreads if rendezvous else 0
    barrier = sched.SimSemaphore(0)
    barrier.name = "barrier"
    arrived = [0]
    errors = []
    mutexes = []
    for lock in locks_:
        mutexes.extend(_find_locks(lock, rw))
    states = set()

    def snap():
        states.add("%s|%s" % (
            ",".join("%d/%d" % (m.r, m.w) for m in mons),
            "".join("1" if l.held else "0" for l in mutexes)))

    def enter(t, rd):
        lock = locks_[rd["l"] % nlocks]
        mon = mons[rd["l"] % nlocks]
        if rd["role"] == "r":
            lock.reader_acquire()
        else:
            lock.writer_acquire()
        mon.enter(rd["role"], t.tid)
        snap()
        if mon.bad:
            s.abort("mutex")
            raise sched.SimAbort()

    def leave(t, rd):
        lock = locks_[rd["l"] % nlocks]
        mon = mons[rd["l"] % nlocks]
        mon.leave(rd["role"])
        if rd["role"] == "r":
            lock.reader_release()
        else:
            lock.writer_release()
        snap()

    def body_for(spec):
        def body(t):
            try:
                for rd in spec["rounds"]:
                    enter(t, rd)
                    if rendezvous:
                        arrived[0] += 1
                        if arrived[0] == nreaders:
                            barrier.release(nreaders - 1)
                        else:
                            barrier.acquire()
                    for _ in range(rd.get("cs", 0)):
                        s.yield_point("explicit")
                    inner = rd.get("inner")
                    if inner and nlocks > 1:
                        enter(t, inner)
                        for _ in range(inner.get("cs", 0)):
                            s.yield_point("explicit")
                        leave(t, inner)
                    leave(t, rd)
            except sched.SimAbort:
                raise
            except Exception as e:
                errors.append((t.tid, e))
                s.abort("exception")
                raise sched.SimAbort()
        return body

    for spec in prog["threads"]:
        s.spawn(body_for(spec))
    if not s.threads:
        return out
    s.run()
    out["steps"] = s.global_step
    out["ops"] = sum(len(t["rounds"]) for t in prog["threads"])
    out["nontrivial"] = s.preemptions >= 1
    out["digest"] = hashlib.sha256(repr(s.events).encode()).hexdigest()[:16]
    out["states"] = states
    out["trace"] = s.trace
    core.bump(out["faults"], "preemption", s.preemptions)
    if s.stalls_done:
        core.bump(out["faults"], "stall", s.stalls_done)
    if s.timer_fires:
        core.bump(out["faults"], "timed_wait_expired", s.timer_fires)
    out["sim_time"] = s.now
    if any(m.max_r >= 2 for m in mons):
        core.bump(out["probes"], "two_readers_inside")
    if _saw_block(s):
        core.bump(out["probes"], "acquire_blocked")
    if _writer_blocked_reader(s, prog):
        core.bump(out["probes"], "writer_blocked_reader")
    if nlocks > 1:
        core.bump(out["probes"], "two_lock_instances")
    for th in s.threads:
        if th.exc is not None:
            errors.append((th.tid, th.exc))
    reason = s.abort_reason
    bad = next((m.bad for m in mons if m.bad), None)
    if bad:
        out["violation"] = core.violation(
            ID, "mutex", bad[0], bad[1],
            dict(events=s.events[-60:], trace=s.trace))
    elif errors:
        tid, e = errors[0]
        out["violation"] = core.violation(
            ID, "exception", type(e).__name__,
            "thread %d: lock operation raised %r" % (tid, e),
            dict(events=s.events[-60:], trace=s.trace))
    elif reason == "deadlock":
        site = "rendezvous-readers-not-shared" if rendezvous else "deadlock"
        out["violation"] = core.violation(
            ID, "shared" if rendezvous else "deadlock", site,
            "no enabled thread while some are unfinished; blocked-on graph: "
            "%r" % (s.blocked_graph,),
            dict(graph=s.blocked_graph, events=s.events[-60:], trace=s.trace))
    elif reason == "step-cap" and s.timer_fires >= 50:
        # a correct lock that waits in short timed slices spins for as long
        # as a stalled holder stays away: with a long stall that exhausts the
        # step budget without being a livelock.  Inconclusive, not a verdict.
        core.bump(out["probes"], "inconclusive_busy_wait_under_stall")
    elif reason == "step-cap":
        out["violation"] = core.violation(
            ID, "progress", "step-cap",
            "run did not finish within %d steps (livelock / no progress)"
            % STEP_CAP, dict(trace=s.trace[-50:]))
    elif reason:
        raise core.HarnessError("run aborted: %s" % reason)
    else:
        # reusable: every holder has released; each lock must be available
        step = "start"
        try:
            for li, lock in enumerate(locks_):
                step = "writer"
                lock.writer_acquire()
                lock.writer_release()
                step = "two-readers"
                lock.reader_acquire()
                lock.reader_acquire()
                lock.reader_release()
                lock.reader_release()
                step = "writer-again"
                lock.writer_acquire()
                lock.writer_release()
            if any(l.held for l in mutexes):
                raise RuntimeError("a mutex is still held after all releases")
        except Exception as e:
            out["violation"] = core.violation(
                ID, "reusable", step,
                "after all holders released, sequential %s failed: %r"
                % (step, e), dict(trace=s.trace))
    return out


def _find_locks(lock, ns):
    """The simulated mutexes reachable from the lock object (and from the
    module's classes / globals), by creation order (names lock1.. per run)."""
    found = {}
    seen = set()

    def walk(o, depth):
        if id(o) in seen:
            return
        seen.add(id(o))
        if isinstance(o, (sched.SimLock, sched.SimSemaphore)):
            found[o.name] = o
            return
        if isinstance(o, sched.SimCondition):
            walk(o.lock, depth)
            return
        if depth > 3:
            return
        if isinstance(o, (list, tuple)):
            for v in o:
                walk(v, depth + 1)
            return
        d = getattr(o, "__dict__", None)
        if d:
            for v in list(d.values()):
                walk(v, depth + 1)
        dfl = getattr(o, "__defaults__", None)
        if dfl:
            for v in dfl:
                walk(v, depth + 1)
    walk(lock, 0)
    for v in list(ns.values()):
        if isinstance(v, type) or isinstance(v, (sched.SimLock,
                                                 sched.SimSemaphore)):
            walk(v, 1)
    return [found[k] for k in sorted(found, key=lambda n: (len(n), n))]


def _saw_block(s):
    # a blocked acquire shows as acq ... (another thread's rel) ... got
    last_acq = {}
    for i, (tid, tag) in enumerate(s.events):
        if tag.startswith("acq:"):
            last_acq[(tid, tag[4:])] = i
        elif tag.startswith("got:"):
            j = last_acq.get((tid, tag[4:]))
            if j is not None and any(s.events[k][0] != tid and
                                     s.events[k][1].startswith("rel:" + tag[4:])
                                     for k in range(j, i)):
                return True
    return False


def _writer_blocked_reader(s, prog):
    """Some reader's acquire of a mutex completed only after a thread that
    (also) writes released that mutex."""
    writes = [any(rd["role"] == "w" or (rd.get("inner") or {}).get("role")
                  == "w" for rd in t["rounds"]) for t in prog["threads"]]
    reads = [any(rd["role"] == "r" for rd in t["rounds"])
             for t in prog["threads"]]
    last_acq = {}
    for i, (tid, tag) in enumerate(s.events):
        if tid >= len(writes):
            continue
        if tag.startswith("acq:"):
            last_acq[(tid, tag[4:])] = i
        elif tag.startswith("got:") and reads[tid]:
            j = last_acq.get((tid, tag[4:]))
            if j is not None and any(
                    s.events[k][0] != tid and writes[s.events[k][0]]
                    and s.events[k][1] == "rel:" + tag[4:]
                    for k in range(j, i)):
                return True
    return False


def to_trace(prog):
    """The same run with the scheduler's decisions written out: every context
    switch as [thread, its local step, next thread]."""
    import copy
    out = execute(prog)
    tr = out.get("trace")
    if tr is None:
        return None
    p2 = copy.deepcopy(prog)
    p2["sched"] = dict(kind="trace", seed=0, trace=[list(x) for x in tr])
    for k in ("stalls", "main_tid"):
        if k in prog["sched"]:
            p2["sched"][k] = prog["sched"][k]
    return p2
