"""Engine A - schedsim: a seeded scheduler for real threads.

Every simulated thread is a real threading.Thread, but only the holder of the
baton runs; the others are parked on private semaphores.  At every yield point
the running thread asks the scheduler whether to hand the baton over, so the OS
and the GIL never decide anything.  Yield points are installed from outside the
library: sys.monitoring LINE / INSTRUCTION events restricted to the library's
own code objects, class-level attribute-access wrappers, and the operations of
the simulated mutex.
"""
import random
import sys
import threading
import types

_mon = sys.monitoring
TOOL = 3
_state = dict(tool=False, line_codes=set(), instr_codes=set())
_active = None          # the Scheduler of the run in progress (or None)
_line_hook = None       # histsim: callable(code, line) run in the main thread


class SimAbort(BaseException):
    """Unwinds every simulated thread when a run is aborted."""


class SimInterrupt(BaseException):
    """The injected asynchronous interruption (KeyboardInterrupt stand-in)."""


class SimThread(object):
    def __init__(self, tid, fn):
        self.tid = tid
        self.fn = fn
        self.sem = threading.Semaphore(0)
        self.state = "enabled"      # enabled | blocked | done
        self.blocked_on = None
        self.steps = 0              # local yield-point counter
        self.atomic = 0
        self.exc = None
        self.aborted = False
        self.interrupt_at = None    # local step at which to raise SimInterrupt
        self.interrupted = 0
        self.held_locks = 0         # simulated mutexes currently held
        self.prio = 0
        self.thread = None
        self.ready = threading.Event()
        self.deadline = None        # simulated time at which a timed wait ends
        self.timed_out = False
        self.stalled_until = None   # simulated time until which it is stalled


# ------------------------------------------------------------ strategies ---

class Strategy(object):
    """Decides, at a yield point of `cur`, who runs next among `enabled`."""

    def __init__(self, cfg, nthreads):
        self.cfg = cfg
        self.rng = random.Random(cfg["seed"])
        kind = cfg["kind"]
        self.kind = kind
        self.n = nthreads
        if kind in ("pct", "park"):
            order = list(range(nthreads))
            self.rng.shuffle(order)
            if cfg.get("order"):
                # explicit priority order, lowest first (last runs first)
                order = [t for t in cfg["order"] if t < nthreads] + \
                    [t for t in order if t not in cfg["order"]]
            # higher number = higher priority; base priorities above the
            # demotion levels
            self.prio = {t: 100 + i for i, t in enumerate(order)}
            self.demote_level = 50
        if kind == "pct":
            k = max(2, int(cfg.get("k", 200)))
            d = int(cfg.get("d", 2))
            if cfg.get("change_points") is not None:
                self.change = sorted(cfg["change_points"])
            else:
                self.change = sorted(self.rng.randrange(1, k)
                                     for _ in range(d - 1))
        if kind == "park":
            # list of [tid, local_step]
            self.parks = {(a, b) for a, b in cfg.get("parks", [])}
        if kind == "trace":
            self.trace = {(a, b): c for a, b, c in cfg.get("trace", [])}

    def _best(self, enabled):
        return max(enabled, key=lambda t: (self.prio[t.tid], -t.tid))

    def choose(self, sched, cur, enabled, forced):
        kind = self.kind
        if kind == "trace":
            u = self.trace.get((cur.tid, cur.steps))
            if u is not None:
                for t in enabled:
                    if t.tid == u:
                        return t
            if forced:
                return min(enabled, key=lambda t: t.tid)
            return cur
        if kind == "random":
            if forced:
                return enabled[self.rng.randrange(len(enabled))]
            if len(enabled) > 1 and self.rng.random() < self.cfg["p"]:
                others = [t for t in enabled if t is not cur]
                return others[self.rng.randrange(len(others))]
            return cur
        if kind == "pct":
            if self.change and sched.global_step >= self.change[0]:
                self.change.pop(0)
                self.demote_level -= 1
                self.prio[cur.tid] = self.demote_level
            return self._best(enabled)
        if kind == "park":
            if (cur.tid, cur.steps) in self.parks:
                self.demote_level -= 1
                self.prio[cur.tid] = self.demote_level
            return self._best(enabled)
        if kind == "serial":
            if forced:
                return min(enabled, key=lambda t: t.tid)
            return cur
        raise ValueError(kind)


# -------------------------------------------------------------- scheduler --

class Scheduler(object):
    def __init__(self, sched_cfg, step_cap=200000, kinds=None):
        self.cfg = sched_cfg
        self.threads = []
        self.by_ident = {}
        self.current = None
        self.global_step = 0
        self.step_cap = step_cap
        self.abort_reason = None
        self.trace = []         # [tid, local_step, next_tid] for every switch
        self.events = []        # (tid, tag) shared-access / lock events
        self.main_done = threading.Event()
        self.fin_lock = threading.Lock()
        self.ndone = 0
        self.strategy = None
        self.kinds = kinds      # set of yield kinds honoured, None = all
        self.preemptions = 0
        self.on_step = None     # invariant hook, called at every yield point
        self.blocked_graph = None
        self.switch_sites = []  # library call stack at each pre-emption
        # simulated clock: advances only when nothing is runnable, to the
        # earliest timer (end of a timed wait, end of a stall)
        self.now = 0.0
        self.timer_fires = 0
        self.stalls_done = 0
        self.stall_map = {(a, b): d for a, b, d in
                          (sched_cfg.get("stalls") or [])}
        self.main_tid = sched_cfg.get("main_tid")

    # -- construction
    def spawn(self, fn):
        t = SimThread(len(self.threads), fn)
        self.threads.append(t)
        return t

    def me(self):
        return self.by_ident.get(threading.get_ident())

    def _enabled(self):
        """Runnable threads; when there is none, the clock jumps to the
        earliest pending timer and its thread becomes runnable."""
        en = [x for x in self.threads if x.state == "enabled"]
        if en:
            return en
        timers = [(x.deadline, x.tid, x) for x in self.threads
                  if x.state == "blocked" and x.deadline is not None]
        timers += [(x.stalled_until, x.tid, x) for x in self.threads
                   if x.state == "stalled"]
        if not timers:
            return []
        when, _tid, x = min(timers, key=lambda q: (q[0], q[1]))
        self.now = max(self.now, when)
        if x.state == "stalled":
            x.stalled_until = None
        else:
            x.timed_out = True
            x.deadline = None
            self.timer_fires += 1
        x.state = "enabled"
        return [x]

    # -- running
    def run(self, wall_timeout=120):
        global _active
        reset_lib_locks()
        self.strategy = Strategy(self.cfg, len(self.threads))
        for t in self.threads:
            th = threading.Thread(target=self._body, args=(t,), daemon=True)
            t.thread = th
        _active = self
        try:
            for t in self.threads:
                t.thread.start()
            # by_ident is complete once every body has registered itself
            for t in self.threads:
                t.ready.wait()
            first = self.strategy.choose(self, self.threads[0],
                                        list(self.threads), True) \
                if self.threads else None
            if first is None:
                return
            self.current = first
            first.sem.release()
            if not self.main_done.wait(wall_timeout):
                self.abort("wall-timeout")
                self.main_done.wait(30)
            for t in self.threads:
                t.thread.join(30)
        finally:
            _active = None

    def _body(self, t):
        self.by_ident[threading.get_ident()] = t
        t.ready.set()
        t.sem.acquire()
        try:
            if self.abort_reason:
                raise SimAbort()
            t.fn(t)
        except SimAbort:
            t.aborted = True
        except BaseException as e:      # harness-level: worker wrappers catch
            t.exc = e                   # everything the library may raise
        finally:
            self._finish(t)

    def _finish(self, t):
        with self.fin_lock:
            t.state = "done"
            self.ndone += 1
            if self.ndone == len(self.threads):
                self.main_done.set()
                return
            if self.abort_reason:
                return
            t.steps += 1
            enabled = self._enabled()
            if not enabled:
                self._deadlock()
                return
            nxt = self.strategy.choose(self, t, enabled, True)
            self.trace.append([t.tid, t.steps, nxt.tid])
            self.current = nxt
            nxt.sem.release()

    def _deadlock(self):
        self.blocked_graph = [
            dict(thread=x.tid, blocked_on=getattr(x.blocked_on, "name", None),
                 held_by=getattr(getattr(x.blocked_on, "owner", None), "tid",
                                 None))
            for x in self.threads if x.state == "blocked"]
        self._abort_locked("deadlock")

    def abort(self, reason):
        with self.fin_lock:
            self._abort_locked(reason)

    def _abort_locked(self, reason):
        if self.abort_reason:
            return
        self.abort_reason = reason
        cur = self.current
        for x in self.threads:
            if x.state != "done" and x is not cur:
                x.sem.release()
        # the current thread notices at its next yield point; if it is the
        # caller it raises itself

    # -- yield points
    def yield_point(self, kind):
        t = self.by_ident.get(threading.get_ident())
        if t is None or t is not self.current or t.atomic:
            return
        if self.abort_reason:
            raise SimAbort()
        if self.kinds is not None and kind not in self.kinds:
            return
        t.steps += 1
        self.global_step += 1
        if self.global_step > self.step_cap:
            self.abort("step-cap")
            raise SimAbort()
        if self.on_step is not None:
            self.on_step(self, t)
        if t.interrupt_at is not None and t.steps >= t.interrupt_at \
                and t.held_locks == 0:
            # (an asynchronous exception is not delivered inside a critical
            # section: CPython itself cannot guarantee __exit__ runs when a
            # signal lands between the end of a with-body and the call of
            # __exit__, so lock-protected code is not required to survive it)
            t.interrupt_at = None
            t.interrupted += 1
            raise SimInterrupt()
        dur = self.stall_map.get((t.tid, t.steps)) if self.stall_map else None
        if dur is not None:
            # fault: this thread stalls for `dur` simulated seconds (others
            # run on; the clock only moves when nobody else can)
            t.state = "stalled"
            t.stalled_until = self.now + dur
            self.stalls_done += 1
            enabled = self._enabled()
            nxt = self.strategy.choose(self, t, enabled, True)
        else:
            enabled = [x for x in self.threads if x.state == "enabled"]
            nxt = self.strategy.choose(self, t, enabled, False)
        if nxt is not t:
            self.preemptions += 1
            self.trace.append([t.tid, t.steps, nxt.tid])
            if len(self.switch_sites) < 64:
                self.switch_sites.append(_lib_stack())
            self._switch(t, nxt)

    def _switch(self, t, nxt):
        self.current = nxt
        nxt.sem.release()
        t.sem.acquire()
        if self.abort_reason:
            raise SimAbort()

    def block(self, t, on, deadline=None):
        """Called by the running thread when it cannot proceed.  With a
        deadline (simulated time) the wait may end by time-out: returns True
        in that case."""
        t.state = "blocked"
        t.blocked_on = on
        t.deadline = deadline
        t.timed_out = False
        t.steps += 1
        enabled = self._enabled()
        if not enabled:
            with self.fin_lock:
                self._deadlock()
            t.state = "enabled"
            raise SimAbort()
        nxt = self.strategy.choose(self, t, enabled, True)
        if nxt is not t:
            self.trace.append([t.tid, t.steps, nxt.tid])
            self._switch(t, nxt)
        t.blocked_on = None
        t.deadline = None
        out, t.timed_out = t.timed_out, False
        return out

    def event(self, tag):
        t = self.by_ident.get(threading.get_ident())
        if t is not None:
            self.events.append((t.tid, tag))


def _lib_stack():
    """co_names of the library frames on the current stack, innermost
    first (used for reach probes only)."""
    names = []
    f = sys._getframe(2)
    codes = _state["line_codes"]
    instr = _state["instr_codes"]
    depth = 0
    while f is not None and depth < 40 and len(names) < 6:
        if f.f_code in codes or f.f_code in instr:
            names.append(f.f_code.co_name)
        f = f.f_back
        depth += 1
    return "<".join(names)


class _Atomic(object):
    def __init__(self, t):
        self.t = t

    def __enter__(self):
        if self.t is not None:
            self.t.atomic += 1

    def __exit__(self, *a):
        if self.t is not None:
            self.t.atomic -= 1
        return False


def atomic():
    s = _active
    return _Atomic(s.me() if s is not None else None)


def explicit_yield(kind="explicit"):
    s = _active
    if s is not None:
        s.yield_point(kind)


# ------------------------------------------------------- simulated mutexes --

class SimLock(object):
    """threading.Lock look-alike whose blocking is a scheduler decision."""
    _count = 0

    def __init__(self, name=None):
        SimLock._count += 1
        self.name = name or "lock%d" % SimLock._count
        self.held = False
        self.owner = None
        self.waiters = []

    def acquire(self, blocking=True, timeout=-1):
        s = _active
        t = s.me() if s is not None else None
        if t is None:
            # outside a simulation (sequential phases): no contention exists
            if self.held:
                if not blocking or timeout >= 0:
                    return False
                raise RuntimeError("sequential acquire of a held SimLock "
                                   "(%s) would block forever" % self.name)
            self.held = True
            self.owner = None
            return True
        s.events.append((t.tid, "acq:" + self.name))
        s.yield_point("lock")
        deadline = s.now + timeout if timeout is not None and timeout >= 0 \
            else None
        while self.held:
            if not blocking:
                return False
            if deadline is not None and s.now >= deadline:
                s.events.append((t.tid, "timeout:" + self.name))
                return False
            self.waiters.append(t)
            if s.block(t, self, deadline):
                if t in self.waiters:
                    self.waiters.remove(t)
        self.held = True
        self.owner = t
        t.held_locks += 1
        s.events.append((t.tid, "got:" + self.name))
        return True

    def release(self):
        if not self.held:
            if _active is not None and _active.abort_reason:
                return      # a torn-down run is unwinding its with-blocks
            raise RuntimeError("release unlocked lock")
        s = _active
        t = s.me() if s is not None else None
        if self.owner is not None and self.owner.held_locks > 0:
            self.owner.held_locks -= 1
        self.held = False
        self.owner = None
        for w in self.waiters:
            if w.state == "blocked":
                w.state = "enabled"
        self.waiters = []
        if t is not None:
            s.events.append((t.tid, "rel:" + self.name))
            s.yield_point("lock")

    def locked(self):
        return self.held

    def __enter__(self):
        self.acquire()
        return self

    def __exit__(self, *a):
        self.release()
        return False


class SimRLock(SimLock):
    def __init__(self, name=None):
        SimLock.__init__(self, name)
        self.depth = 0

    def acquire(self, blocking=True, timeout=-1):
        s = _active
        t = s.me() if s is not None else None
        if self.held and self.owner is t:
            self.depth += 1
            return True
        ok = SimLock.acquire(self, blocking, timeout)
        if ok:
            self.depth = 1
        return ok

    def release(self):
        s = _active
        t = s.me() if s is not None else None
        if not self.held or self.owner is not t:
            if s is not None and s.abort_reason:
                return      # a torn-down run is unwinding its with-blocks
            raise RuntimeError("cannot release un-acquired lock")
        self.depth -= 1
        if self.depth == 0:
            SimLock.release(self)


class SimSemaphore(object):
    def __init__(self, value=1):
        self.value = value
        self.waiters = []
        SimLock._count += 1
        self.name = "sem%d" % SimLock._count
        self.owner = None

    def acquire(self, blocking=True, timeout=None):
        s = _active
        t = s.me() if s is not None else None
        if t is None:
            if self.value <= 0:
                if not blocking or timeout is not None:
                    return False
                raise RuntimeError("sequential acquire would block forever")
            self.value -= 1
            return True
        s.events.append((t.tid, "acq:" + self.name))
        s.yield_point("lock")
        deadline = s.now + timeout if timeout is not None and timeout >= 0 \
            else None
        while self.value <= 0:
            if not blocking:
                return False
            if deadline is not None and s.now >= deadline:
                return False
            self.waiters.append(t)
            if s.block(t, self, deadline) and t in self.waiters:
                self.waiters.remove(t)
        self.value -= 1
        s.events.append((t.tid, "got:" + self.name))
        return True

    def release(self, n=1):
        self.value += n
        for w in self.waiters:
            if w.state == "blocked":
                w.state = "enabled"
        self.waiters = []
        s = _active
        t = s.me() if s is not None else None
        if t is not None:
            s.events.append((t.tid, "rel:" + self.name))
            s.yield_point("lock")

    __enter__ = acquire

    def __exit__(self, *a):
        self.release()
        return False


class SimCondition(object):
    def __init__(self, lock=None):
        self.lock = lock if lock is not None else SimRLock()
        self.acquire = self.lock.acquire
        self.release = self.lock.release
        self.waiting = []
        SimLock._count += 1
        self.name = "cond%d" % SimLock._count
        self.owner = None

    def __enter__(self):
        return self.lock.__enter__()

    def __exit__(self, *a):
        return self.lock.__exit__(*a)

    def wait(self, timeout=None):
        s = _active
        t = s.me() if s is not None else None
        if t is None:
            raise RuntimeError("sequential Condition.wait would block forever")
        depth = getattr(self.lock, "depth", 1)
        if isinstance(self.lock, SimRLock):
            self.lock.depth = 1
        # (as in threading.Condition.wait: the waiter is registered *before*
        # the lock is given up, so a notify that runs in between is not lost)
        token = [False]
        self.waiting.append((t, token))
        deadline = s.now + timeout if timeout is not None and timeout >= 0 \
            else None
        timed_out = False
        try:
            self.lock.release()
            while not token[0]:
                if deadline is not None and s.now >= deadline:
                    timed_out = True
                    break
                if s.block(t, self, deadline) and not token[0]:
                    timed_out = True
                    break
            if timed_out:
                self.waiting = [w for w in self.waiting if w[1] is not token]
            self.lock.acquire()
        except SimAbort:
            # the run is being torn down: like threading.Condition.wait, give
            # the caller its lock back so that the enclosing with-block can
            # unwind (otherwise its __exit__ raises and masks the abort)
            self.waiting = [w for w in self.waiting if w[1] is not token]
            self.lock.held = True
            self.lock.owner = t
            if isinstance(self.lock, SimRLock):
                self.lock.depth = depth
            raise
        if isinstance(self.lock, SimRLock):
            self.lock.depth = depth
        return not timed_out

    def wait_for(self, predicate, timeout=None):
        s = _active
        end = s.now + timeout if s is not None and timeout is not None \
            else None
        r = predicate()
        while not r:
            if end is not None:
                left = end - s.now
                if left <= 0:
                    break
                self.wait(left)
            else:
                self.wait()
            r = predicate()
        return r

    def notify(self, n=1):
        woken = self.waiting[:n]
        self.waiting = self.waiting[n:]
        for t, token in woken:
            token[0] = True
            if t.state == "blocked":
                t.state = "enabled"
        s = _active
        if s is not None and s.me() is not None:
            s.yield_point("lock")

    def notify_all(self):
        self.notify(len(self.waiting))

    notifyAll = notify_all


class SimEvent(object):
    def __init__(self):
        self.flag = False
        self.cond = SimCondition(SimLock())

    def is_set(self):
        return self.flag

    isSet = is_set

    def set(self):
        with self.cond:
            self.flag = True
            self.cond.notify_all()

    def clear(self):
        with self.cond:
            self.flag = False

    def wait(self, timeout=None):
        with self.cond:
            if not self.flag:
                self.cond.wait_for(lambda: self.flag, timeout)
            return self.flag


# ---- locks the library itself may create -----------------------------------
_lib_locks = []
_patched = {}


def patch_threading(lib_src_root):
    """Make `threading.Lock()` / `threading.RLock()` return simulated locks
    when (and only when) the caller is library code under `lib_src_root`.
    The library takes no lock today; a change that adds one (a legitimate way
    to make a point thread-safe) would otherwise block a real thread on a
    real mutex held by a thread the scheduler has parked - the simulation
    would hang instead of exploring.  Everything else (the harness, the
    standard library) keeps getting real locks."""
    if _patched:
        return
    import os
    root = os.path.realpath(lib_src_root) + os.sep
    real_lock, real_rlock = threading.Lock, threading.RLock

    def from_lib():
        f = sys._getframe(2)
        fn = f.f_code.co_filename
        return fn.startswith(root) or os.path.realpath(fn).startswith(root)

    def Lock(*a, **k):
        if from_lib():
            l = SimLock()
            _lib_locks.append(l)
            return l
        return real_lock(*a, **k)

    def RLock(*a, **k):
        if from_lib():
            l = SimRLock()
            _lib_locks.append(l)
            return l
        return real_rlock(*a, **k)
    threading.Lock = Lock
    threading.RLock = RLock
    _patched.update(lock=real_lock, rlock=real_rlock)


def reset_lib_locks():
    """Forget what an aborted run left behind in long-lived library locks."""
    for l in _lib_locks:
        l.held = False
        l.owner = None
        l.waiters = []
        if isinstance(l, SimRLock):
            l.depth = 0
    if len(_lib_locks) > 10000:
        del _lib_locks[:-1000]


class ThreadingShim(object):
    """Stands in for the `threading` module inside ecdsa._rwlock."""

    def __init__(self, real):
        self._real = real

    Lock = staticmethod(lambda: SimLock())
    RLock = staticmethod(lambda: SimRLock())
    Semaphore = staticmethod(lambda value=1: SimSemaphore(value))
    BoundedSemaphore = staticmethod(lambda value=1: SimSemaphore(value))
    Condition = staticmethod(lambda lock=None: SimCondition(lock))
    Event = staticmethod(lambda: SimEvent())

    def main_thread(self):
        # a run may declare one of its simulated threads to be the program's
        # main thread (code may treat the main thread specially)
        s = _active
        if s is not None and s.main_tid is not None and \
                s.main_tid < len(s.threads):
            return s.threads[s.main_tid].thread
        return self._real.main_thread()

    def __getattr__(self, name):
        return getattr(self._real, name)


# ------------------------------------------------- monitoring installation --

def code_objects_of(module):
    """All code objects defined in a module (functions, methods, nested)."""
    out = []
    seen = set()

    def walk_code(co):
        if id(co) in seen:
            return
        seen.add(id(co))
        out.append(co)
        for c in co.co_consts:
            if isinstance(c, types.CodeType):
                walk_code(c)

    def walk_obj(o, depth=0):
        if isinstance(o, (staticmethod, classmethod)):
            o = o.__func__
        if isinstance(o, types.FunctionType):
            if o.__module__ == module.__name__:
                walk_code(o.__code__)
        elif isinstance(o, type) and depth < 3:
            if o.__module__ == module.__name__:
                for v in list(vars(o).values()):
                    walk_obj(v, depth + 1)
        elif isinstance(o, property):
            for f in (o.fget, o.fset, o.fdel):
                if f is not None:
                    walk_obj(f, depth + 1)

    for v in list(vars(module).values()):
        walk_obj(v)
    return out


def _line_cb(code, line):
    s = _active
    if s is not None:
        s.yield_point("line2" if code in _secondary_codes else "line")
        return
    h = _line_hook
    if h is not None:
        h(code, line)


_secondary_codes = set()


def install_secondary(modules):
    """LINE events on helper modules, reported as yield kind 'line2' so that
    a run only honours them when its granularity asks for it."""
    install()
    for m in modules:
        for co in code_objects_of(m):
            if co not in _state["line_codes"]:
                ev = _mon.get_local_events(TOOL, co) | _mon.events.LINE
                _mon.set_local_events(TOOL, co, ev)
                _state["line_codes"].add(co)
                _secondary_codes.add(co)


def _instr_cb(code, offset):
    s = _active
    if s is not None:
        s.yield_point("instr")


def install(line_modules=(), instr_modules=()):
    """Enable LINE / INSTRUCTION events on the code objects of the given
    (already imported) modules.  Idempotent."""
    if not _state["tool"]:
        _mon.use_tool_id(TOOL, "dsim")
        _mon.register_callback(TOOL, _mon.events.LINE, _line_cb)
        _mon.register_callback(TOOL, _mon.events.INSTRUCTION, _instr_cb)
        _state["tool"] = True
    n = 0
    for m in line_modules:
        for co in code_objects_of(m):
            if co not in _state["line_codes"]:
                ev = _mon.get_local_events(TOOL, co) | _mon.events.LINE
                _mon.set_local_events(TOOL, co, ev)
                _state["line_codes"].add(co)
                n += 1
    for m in instr_modules:
        for co in code_objects_of(m):
            if co not in _state["instr_codes"]:
                ev = _mon.get_local_events(TOOL, co) | _mon.events.INSTRUCTION
                _mon.set_local_events(TOOL, co, ev)
                _state["instr_codes"].add(co)
                n += 1
    return n


# ------------------------------------------------ attribute-access wrappers --

_wrapped = {}
_shared_ids = {}        # id(obj) -> label, for the run in progress
_auto_share_classes = ()   # values of these classes stored into a shared
                           # object become shared themselves


_keepalive = []


def set_shared(objs):
    """Register the shared objects of a run.  Every registered object is
    kept alive until the next call: a freed object's id could otherwise be
    reused by an unrelated temporary, which would then count as shared
    (memory-layout dependent, i.e. non-deterministic)."""
    _shared_ids.clear()
    del _keepalive[:]
    for label, o in objs:
        _shared_ids[id(o)] = label
        _keepalive.append(o)


def wrap_attr_class(cls):
    """Install class-level __getattribute__/__setattr__ that make every read
    or write of an *instance-dict* attribute of a registered shared object a
    yield point and a recorded event.  Semantics are otherwise unchanged."""
    if cls in _wrapped:
        return
    og = cls.__getattribute__
    os_ = cls.__setattr__
    objget = object.__getattribute__
    slot_names = set()
    for k in cls.__mro__:
        sl = k.__dict__.get("__slots__", ())
        if isinstance(sl, str):
            sl = (sl,)
        for n_ in sl:
            # private names in __slots__ are mangled like any other
            if n_.startswith("__") and not n_.endswith("__"):
                n_ = "_%s%s" % (k.__name__.lstrip("_"), n_)
            slot_names.add(n_)

    def is_instance_attr(self, name):
        if name in slot_names:
            return True
        try:
            return name in objget(self, "__dict__")
        except AttributeError:
            return False

    def __getattribute__(self, name):
        s = _active
        if s is not None:
            label = _shared_ids.get(id(self))
            if label is not None and name != "__dict__" \
                    and is_instance_attr(self, name):
                t = s.by_ident.get(threading.get_ident())
                if t is not None and not t.atomic:
                    s.events.append((t.tid, "r:%s.%s" % (label, name)))
                    s.yield_point("attr")
        return og(self, name)

    def __setattr__(self, name, value):
        s = _active
        if s is not None:
            label = _shared_ids.get(id(self))
            if label is not None:
                if isinstance(value, _auto_share_classes) and \
                        id(value) not in _shared_ids:
                    _shared_ids[id(value)] = "%s.%s'" % (label, name)
                    _keepalive.append(value)
                t = s.by_ident.get(threading.get_ident())
                if t is not None and not t.atomic:
                    s.events.append((t.tid, "w:%s.%s" % (label, name)))
                    s.yield_point("attr")
        return os_(self, name, value)

    cls.__getattribute__ = __getattribute__
    cls.__setattr__ = __setattr__
    _wrapped[cls] = (og, os_)
