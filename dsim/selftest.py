"""Determinism self-test: every engine, N run seeds per claimed property, each
executed in two fresh interpreters with different PYTHONHASHSEED values and in
a different order (forward in one process, reversed in the other - so a digest
that depended on what ran before in the same process, on hash randomisation or
on the process would differ).  Per-run digests must be identical."""
import json
import os
import subprocess
import sys

from . import core

PROPS = ["C01", "C02", "C05", "C06", "C07", "C08", "C09", "C10", "C11", "C12",
         "C17", "C18", "C19", "C20"]


def worker(prop, n, order, seed):
    core.lib()
    mod = core.load_prop(prop)
    idx = list(range(n))
    if order == "rev":
        idx.reverse()
    res = {}
    for i in idx:
        rs = core.derive(seed, mod.ID, "quick", i)
        prog = mod.generate(rs, "quick")
        out = core.execute_any(mod, prog)
        v = out.get("violation")
        res[str(i)] = [out.get("digest"), out.get("steps"), out.get("ops"),
                       v["cls"] if v else None,
                       sorted(out.get("faults", {}).items()),
                       core.digest_of(prog)]
    print("RESULT " + json.dumps(res, sort_keys=True))


def main(n):
    seed = int(os.environ.get("VERIF_SEED", "0"))
    bad = 0
    total = 0
    for prop in PROPS:
        outs = []
        for hs, order in (("1", "fwd"), ("987654", "rev")):
            env = dict(os.environ, PYTHONHASHSEED=hs)
            p = subprocess.run(
                [sys.executable, "-B", "-c",
                 "import sys; sys.path.insert(0, %r); "
                 "from dsim import selftest; selftest.worker(%r, %d, %r, %d)"
                 % (core.VERIF, prop, n, order, seed)],
                capture_output=True, text=True, env=env, timeout=1800)
            line = [l for l in p.stdout.splitlines() if l.startswith("RESULT ")]
            if p.returncode or not line:
                print("selftest %s: worker failed rc=%d\n%s" % (
                    prop, p.returncode, p.stderr[-1500:]))
                return 2
            outs.append(json.loads(line[0][7:]))
        diff = [i for i in outs[0] if outs[0][i] != outs[1][i]]
        total += len(outs[0])
        if diff:
            bad += len(diff)
            i = diff[0]
            print("selftest %s: NON-DETERMINISTIC run %s:\n  %r\n  %r" % (
                prop, i, outs[0][i], outs[1][i]))
        else:
            print("selftest %s: %d runs x 2 interpreters (hash seeds 1 / "
                  "987654, forward / reversed order): identical digests" % (
                      prop, len(outs[0])))
    print("selftest: %d runs compared, %d differ" % (total, bad))
    return 0 if not bad else 2
