"""Engine C - worldsim: the world around the (real) library code.

  * store / channel faults applied to bytes in flight between a producer and
    a consumer;
  * PEM armour damage; arithmetic tampering of signatures;
  * the simulated entropy device;
  * a wall-clock guard that turns a non-terminating library call into an
    observable outcome.
"""
import base64
import signal

from . import core

BYTE_FAULTS = ["flip", "set", "truncate", "extend", "insert", "delete", "dup",
               "splice", "len_tamper", "swap_halves", "empty", "zero_fill",
               "inc_byte", "nest"]
INTERESTING = [0x00, 0x01, 0x02, 0x03, 0x04, 0x05, 0x06, 0x07, 0x30, 0x31,
               0x7F, 0x80, 0x81, 0x82, 0x83, 0x84, 0x88, 0xA0, 0xA1, 0xBF,
               0xFE, 0xFF]


def _pos(r, n, bias_front=True):
    """Fault position: near the front (headers, lengths), near the back
    (padding bits, last body byte, tail boundary) or anywhere."""
    if n <= 0:
        return 0
    c = r.random()
    if bias_front and c < 0.4:
        return min(n - 1, int(r.expovariate(0.25)))
    if bias_front and c < 0.65:
        return max(0, n - 1 - int(r.expovariate(0.35)))
    return r.randrange(n)


def der_length_offsets(data):
    """Offsets of every length octet that a permissive TLV walk finds
    (recursing into constructed types and into OCTET/BIT STRING bodies that
    look like TLVs).  Purely a fault-placement heuristic."""
    out = []

    def walk(lo, hi, depth):
        pos = lo
        n = 0
        while pos + 1 < hi and n < 64 and depth < 8:
            n += 1
            tag = data[pos]
            lpos = pos + 1
            b0 = data[lpos]
            if b0 < 0x80:
                ln, hl = b0, 2
            else:
                ll = b0 & 0x7F
                if ll == 0 or ll > 4 or lpos + 1 + ll > hi:
                    out.append(lpos)
                    return
                ln = int.from_bytes(data[lpos + 1:lpos + 1 + ll], "big")
                hl = 2 + ll
            out.append(lpos)
            body_lo = pos + hl
            body_hi = min(hi, body_lo + ln)
            if tag & 0x20 or tag in (0x04,):
                walk(body_lo, body_hi, depth + 1)
            elif tag == 0x03 and body_lo < body_hi:
                walk(body_lo + 1, body_hi, depth + 1)
            pos = body_lo + ln
    try:
        walk(0, len(data), 0)
    except Exception:
        pass
    return sorted(set(out))


def apply_fault(r, data, kind, other=None):
    """Return (damaged_bytes, description).  `other` is a second valid item
    (for splice)."""
    data = bytes(data)
    n = len(data)
    if kind == "empty":
        return b"", "empty"
    if n == 0:
        return bytes([r.choice(INTERESTING)]), "one byte into empty"
    if kind == "flip":
        i = _pos(r, n)
        b = 1 << r.randrange(8)
        return data[:i] + bytes([data[i] ^ b]) + data[i + 1:], \
            "flip bit %d of byte %d" % (b.bit_length() - 1, i)
    if kind == "set":
        i = _pos(r, n)
        v = r.choice(INTERESTING)
        return data[:i] + bytes([v]) + data[i + 1:], "byte %d <- %02x" % (i, v)
    if kind == "inc_byte":
        i = _pos(r, n)
        v = (data[i] + r.choice([1, -1])) & 0xFF
        return data[:i] + bytes([v]) + data[i + 1:], "byte %d +-1" % i
    if kind == "truncate":
        k = r.randrange(0, n) if r.random() < 0.7 else max(0, n - r.randrange(1, 4))
        return data[:k], "truncate to %d of %d" % (k, n)
    if kind == "extend":
        tail = bytes(r.choice(INTERESTING) for _ in range(r.randrange(1, 5))) \
            if r.random() < 0.6 else r.randbytes(r.randrange(1, 9))
        return data + tail, "extend by %d" % len(tail)
    if kind == "insert":
        i = r.randrange(0, n + 1)
        ins = bytes(r.choice(INTERESTING) for _ in range(r.randrange(1, 4)))
        return data[:i] + ins + data[i:], "insert %d at %d" % (len(ins), i)
    if kind == "delete":
        i = _pos(r, n)
        k = r.randrange(1, min(4, n - i) + 1)
        return data[:i] + data[i + k:], "delete %d at %d" % (k, i)
    if kind == "dup":
        i = r.randrange(0, n)
        j = min(n, i + r.randrange(1, 9))
        return data[:j] + data[i:j] + data[j:], "duplicate [%d:%d]" % (i, j)
    if kind == "splice":
        o = bytes(other) if other else data[::-1]
        i = r.randrange(0, n + 1)
        j = r.randrange(0, len(o) + 1)
        return data[:i] + o[j:], "prefix[:%d] + other[%d:]" % (i, j)
    if kind == "swap_halves":
        h = n // 2
        return data[h:] + data[:h], "swap halves"
    if kind == "zero_fill":
        i = _pos(r, n)
        k = r.randrange(1, min(8, n - i) + 1)
        v = r.choice([0x00, 0xFF])
        return data[:i] + bytes([v]) * k + data[i + k:], \
            "fill [%d:%d] with %02x" % (i, i + k, v)
    if kind == "nest":
        # wrap (a slice of) the item into another TLV
        tag = r.choice([0x30, 0x04, 0x03, 0xA0, 0xA1, 0x02, 0x06])
        body = data if r.random() < 0.5 else data[_pos(r, n):]
        if len(body) < 0x80:
            hdr = bytes([tag, len(body)])
        else:
            lb = len(body).to_bytes((len(body).bit_length() + 7) // 8, "big")
            hdr = bytes([tag, 0x80 | len(lb)]) + lb
        return hdr + body, "nest inside tag %02x" % tag
    if kind == "len_tamper":
        offs = der_length_offsets(data)
        if not offs:
            return apply_fault(r, data, "set")
        i = r.choice(offs)
        b0 = data[i]
        mode = r.choice(["bigger", "smaller", "long1", "long2", "nonmin",
                         "indef", "huge", "plus1", "lenlen_over"])
        if b0 < 0x80:
            ln, ll = b0, 0
        else:
            ll = b0 & 0x7F
            ln = int.from_bytes(data[i + 1:i + 1 + ll], "big")
        rest = data[i + 1 + ll:]
        if mode == "bigger":
            new = _enc_len(ln + r.choice([1, 2, 5, 100, 1000]))
        elif mode == "plus1":
            new = _enc_len(ln + 1)
        elif mode == "smaller":
            new = _enc_len(max(0, ln - r.choice([1, 2, 5])))
        elif mode == "long1":
            new = bytes([0x81, ln & 0xFF])
        elif mode == "long2":
            new = bytes([0x82, (ln >> 8) & 0xFF, ln & 0xFF])
        elif mode == "nonmin":
            new = bytes([0x83, 0, (ln >> 8) & 0xFF, ln & 0xFF])
        elif mode == "indef":
            new = b"\x80"
        elif mode == "huge":
            new = bytes([0x84, 0x7F, 0xFF, 0xFF, 0xFF])
        else:
            new = bytes([0x80 | r.choice([5, 9, 0x7F])])
        return data[:i] + new + rest, "length at %d: %d -> %s (%s)" % (
            i, ln, new.hex(), mode)
    raise ValueError(kind)


def _enc_len(n):
    if n < 0x80:
        return bytes([n])
    b = n.to_bytes((n.bit_length() + 7) // 8, "big")
    return bytes([0x80 | len(b)]) + b


PEM_FAULTS = ["drop_header", "drop_footer", "damage_header", "damage_b64",
              "bad_pad", "strip_newlines", "crlf", "extra_text", "dup_block",
              "truncate", "flip", "empty_body", "non_ascii", "b64_of_damaged",
              "long_label", "many_words"]


def apply_pem_fault(r, pem, kind, der_fault=None):
    pem = bytes(pem)
    if len(pem) < 4:
        return apply_fault(r, pem, "extend")
    lines = pem.split(b"\n")
    if kind == "drop_header":
        return b"\n".join(lines[1:]), "drop BEGIN line"
    if kind == "drop_footer":
        body = [l for l in lines if not l.startswith(b"-----END")]
        return b"\n".join(body), "drop END line"
    if kind == "damage_header":
        l0 = lines[0]
        i = r.randrange(len(l0)) if l0 else 0
        l0 = l0[:i] + bytes([r.choice(b"-XB \t")]) + l0[i + 1:]
        return b"\n".join([l0] + lines[1:]), "damage BEGIN line at %d" % i
    if kind == "damage_b64":
        idx = [i for i, l in enumerate(lines) if l and not l.startswith(b"-")]
        if not idx:
            return pem + b"!", "append !"
        i = r.choice(idx)
        l = lines[i]
        j = r.randrange(len(l))
        ch = r.choice(b"!*=.-_ \x00\xff@")
        lines = list(lines)
        lines[i] = l[:j] + bytes([ch]) + l[j + 1:]
        return b"\n".join(lines), "b64 line %d char %d <- %r" % (i, j, ch)
    if kind == "bad_pad":
        idx = [i for i, l in enumerate(lines) if l and not l.startswith(b"-")]
        if not idx:
            return pem, "none"
        i = idx[-1]
        lines = list(lines)
        lines[i] = lines[i].rstrip(b"=") + r.choice([b"", b"=", b"==", b"===",
                                                     b"A", b"A="])
        return b"\n".join(lines), "padding changed"
    if kind == "strip_newlines":
        return pem.replace(b"\n", b""), "all newlines removed"
    if kind == "crlf":
        return pem.replace(b"\n", b"\r\n"), "CRLF line ends"
    if kind == "extra_text":
        pre = r.choice([b"Comment: x\n", b"junk\n", b"\n\n", b"-----\n",
                        b"Comment: exported by: backup job\n",
                        b"Proc-Type: 4,ENCRYPTED\nDEK-Info: AES-128-CBC,00\n\n",
                        b"a: b: c\n", b": \n", b"key:value\n",
                        b"-----BEGIN EC PARAMETERS-----\nBgUrgQQAIQ==\n"
                        b"-----END EC PARAMETERS-----\n"])
        return (pre + pem) if r.random() < 0.5 else (pem + pre), "extra text"
    if kind in ("long_label", "many_words"):
        # a boundary line whose label is very long / has very many words and
        # is not closed properly (label grammars invite backtracking)
        abc = b"ABCDEFGHIJKLMNOPQRSTUVWXYZ0123456789"
        if kind == "long_label":
            lab = bytes(r.choice(abc) for _ in range(r.choice([30, 40, 64,
                                                               200, 4000])))
        else:
            lab = b" ".join(bytes(r.choice(abc) for _ in range(
                r.choice([1, 2, 7]))) for _ in range(r.choice([12, 30, 80])))
        tail = r.choice([b"", b"----", b" -----", b"-----x", b"\n", b"!-----"])
        line = b"-----BEGIN " + lab + tail
        c = r.randrange(3)
        if c == 0:
            return line + b"\n" + pem, "unclosed boundary line in front"
        if c == 1:
            return b"\n".join([line] + lines[1:]), "BEGIN line replaced"
        return pem + line + b"\n", "unclosed boundary line after"
    if kind == "dup_block":
        return pem + pem, "two PEM blocks"
    if kind == "truncate":
        k = r.randrange(0, len(pem))
        return pem[:k], "truncate PEM to %d" % k
    if kind == "flip":
        return apply_fault(r, pem, "flip")
    if kind == "empty_body":
        return lines[0] + b"\n" + (lines[-2] if len(lines) > 1 else b"") + \
            b"\n", "no base64 body"
    if kind == "non_ascii":
        i = r.randrange(len(pem))
        return pem[:i] + bytes([r.choice([0x80, 0xC3, 0xFF])]) + pem[i:], \
            "non-ASCII byte inserted at %d" % i
    if kind == "b64_of_damaged":
        # valid armour around damaged DER
        body = b"".join(l for l in lines if l and not l.startswith(b"-"))
        try:
            der = base64.b64decode(body)
        except Exception:
            der = b""
        k = der_fault or r.choice(BYTE_FAULTS)
        der2, d = apply_fault(r, der, k)
        b64 = base64.b64encode(der2)
        out = [lines[0]] + [b64[i:i + 64] for i in range(0, len(b64), 64)] + \
            [l for l in lines if l.startswith(b"-----END")] + [b""]
        return b"\n".join(out), "valid armour, DER " + d
    raise ValueError(kind)


# ------------------------------------------------------ entropy device -----

class NeedMore(Exception):
    """Scripted entropy stream exhausted."""


class SimEntropy(object):
    """Callable f(numbytes) -> bytes that logs every request."""

    def __init__(self, policy, r=None, script=b"", order=None):
        self.policy = policy
        self.r = r
        self.script = bytes(script)
        self.pos = 0
        self.log = []
        self.order = order
        self.calls = 0

    def __call__(self, nbytes):
        self.calls += 1
        p = self.policy
        if p == "scripted":
            if self.pos + nbytes > len(self.script):
                self.log.append((nbytes, None))
                raise NeedMore()
            out = self.script[self.pos:self.pos + nbytes]
            self.pos += nbytes
        elif p == "uniform":
            out = self.r.randbytes(nbytes)
        elif p == "zeros":
            out = b"\x00" * nbytes
        elif p == "ones":
            # all-ones forever would spin the sampler for ever on most
            # orders; serve it a bounded number of times, then uniform
            out = b"\xff" * nbytes if self.calls <= 3 else self.r.randbytes(nbytes)
        elif p == "repeat":
            if not self.script:
                self.script = self.r.randbytes(max(nbytes, 1))
            out = (self.script * (nbytes // len(self.script) + 1))[:nbytes]
        elif p == "boundary":
            out = self._boundary(nbytes)
        elif p == "reject_k":
            out = self._boundary(nbytes, reject=True)
        else:
            raise ValueError(p)
        self.log.append((nbytes, out))
        return out

    def _boundary(self, nbytes, reject=False):
        """Serve the bit pattern that makes the current sampler's candidate
        equal to a chosen boundary value (or, for reject_k, an out-of-range
        value for the first few calls).  Knows nothing about how the sampler
        slices bits beyond 'big-endian prefix of the request'; if that guess
        is wrong the bytes are simply some adversarial-looking stream."""
        n = self.order
        bits = max((n - 2).bit_length(), 1)
        if reject and self.calls <= self.r.randrange(1, 4):
            cand = self.r.choice([n, n + 1, (1 << bits), (1 << bits) - 1 + 1])
        elif reject:
            return self.r.randbytes(nbytes)
        else:
            cand = self.r.choice([1, 2, n - 1, n - 2, n, n + 1, 1 << (bits - 1),
                                  (1 << bits)])
        v = max(0, cand - 1)
        total = nbytes * 8
        v &= (1 << bits) - 1
        word = v << max(0, total - bits)
        fill = self.r.getrandbits(max(0, total - bits)) if total > bits else 0
        word |= fill
        return (word & ((1 << total) - 1)).to_bytes(nbytes, "big")

    def consumed(self):
        return b"".join(o for _, o in self.log if o is not None)


class SizedSimEntropy(SimEntropy):
    """Same device, but the callable object also has a length (number of
    requests logged so far, 0 when fresh - i.e. it is *falsy* until used).
    A caller-supplied entropy source may be any callable object; the library
    may only call it."""

    def __len__(self):
        return len(self.log)


# --------------------------------------------------------- call guard ------

class CallTimeout(BaseException):
    pass


def _alarm(signum, frame):
    raise CallTimeout()


def guarded(fn, seconds=20):
    """Run fn(); raise CallTimeout if it does not terminate in time."""
    old = signal.signal(signal.SIGALRM, _alarm)
    signal.setitimer(signal.ITIMER_REAL, seconds)
    try:
        return fn()
    finally:
        signal.setitimer(signal.ITIMER_REAL, 0)
        signal.signal(signal.SIGALRM, old)
