#!/venv/bin/python -B
"""baseline_check.py <repo_dir>: run the pinned test suite in <repo_dir> (guard
off) and compare with /root/.vp/BASELINE.json: every stable-pass test must
still pass.  Exit 0 iff so."""
import ast
import json
import os
import subprocess
import sys
import tempfile
import xml.etree.ElementTree as ET
import signal


def _default_sigint():
    # background jobs inherit SIGINT ignored; one suite test raises SIGINT
    # in itself and must see the default disposition
    signal.signal(signal.SIGINT, signal.default_int_handler)


repo = os.path.abspath(sys.argv[1] if len(sys.argv) > 1 else "/repo")
base = json.load(open("/root/.vp/BASELINE.json"))
stable = base["stable_pass"]
if isinstance(stable, str):
    stable = ast.literal_eval(stable)
stable = set(stable)
fd, xml = tempfile.mkstemp(suffix=".xml", dir="/dev/shm")
os.close(fd)
env = dict(os.environ)
env.pop("PYTHON_ECDSA_VERIF", None)
env["PYTHONDONTWRITEBYTECODE"] = "1"
# hypothesis would otherwise keep an example database under <repo>/.hypothesis
# and replay an earlier unlucky example on every later run
hyp = tempfile.mkdtemp(prefix="hyp", dir="/dev/shm")
env["HYPOTHESIS_STORAGE_DIRECTORY"] = hyp
import atexit, shutil
atexit.register(shutil.rmtree, hyp, True)
p = subprocess.run(["/venv/bin/python", "-B", "-m", "pytest", "-q", "-p",
                    "no:cacheprovider", "--timeout=900",
                    "--continue-on-collection-errors", "--junitxml=" + xml],
                   cwd=repo, env=env, capture_output=True, text=True,
                   preexec_fn=_default_sigint)
passed = set()
failed = set()
for tc in ET.parse(xml).getroot().iter("testcase"):
    tid = tc.get("classname") + "::" + tc.get("name")
    bad = any(ch.tag in ("failure", "error") for ch in tc)
    skipped = any(ch.tag == "skipped" for ch in tc)
    if bad:
        failed.add(tid)
    elif not skipped:
        passed.add(tid)
os.unlink(xml)
missing = sorted(stable - passed)
# hypothesis-driven tests in the suite are not derandomised; give a test that
# failed a second and third chance before calling it a regression
still = []
for m in missing:
    cls, name = m.split("::")
    parts = cls.split(".")
    # src.ecdsa.test_x[.Class] -> src/ecdsa/test_x.py[::Class]::name
    path = "/".join(parts[:3]) + ".py"
    node = "::".join([path] + parts[3:] + [name])
    ok = False
    for _ in range(3):
        # a fresh example database each time: the failing example of the
        # previous attempt must not be replayed
        shutil.rmtree(hyp, True)
        os.makedirs(hyp, exist_ok=True)
        q = subprocess.run(["/venv/bin/python", "-B", "-m", "pytest", "-q",
                            "-p", "no:cacheprovider", "--timeout=900", node],
                           cwd=repo, env=env, capture_output=True, text=True,
                           preexec_fn=_default_sigint)
        if q.returncode == 0:
            ok = True
            break
    if ok:
        print("  flaky (passed on re-run):", m)
    else:
        still.append(m)
missing = still
print("passed=%d failed=%d stable=%d stable_not_passing=%d" % (
    len(passed), len(failed), len(stable), len(missing)))
for m in missing[:40]:
    print("  NOT PASSING:", m)
sys.exit(0 if not missing else 1)
