#!/venv/bin/python -B
"""Regenerate MANIFEST.json from the table below (single source of truth)."""
import json
import os
import sys

HERE = os.path.dirname(os.path.dirname(os.path.abspath(__file__)))

BASELINE_OFF = ("cd /repo && env -u PYTHON_ECDSA_VERIF /venv/bin/python -m pytest "
                "-ra -q -p no:cacheprovider --timeout=900 "
                "--continue-on-collection-errors")

CLAIMED = {
    # id: (engine, category, technique, text, note, design_ref)
}

NOT_APPLICABLE = {
    "C03": "pure function of (curve, d, digest, k, allow_truncate): no schedule, fault, entropy stream or history enters it; deterministic simulation has nothing to control (DESIGN 8/C03)",
    "C04": "rfc6979.generate_k is a pure function of its arguments and the retry loop is driven by arithmetic, not by a fault; the one clause with a history in it (same signature every time) is decided inside C19 (DESIGN 8/C04)",
    "C13": "pure function of (r, s, n); the failing band around n/2 is only reachable by constructing s, which is input construction, not simulation (DESIGN 8/C13)",
    "C14": "pure function of (signature, digest, curve, decoder, truncate flag) (DESIGN 8/C14)",
    "C15": "pure number theory (inverse, square root, Jacobi symbol): no state, schedule, fault or entropy (DESIGN 8/C15)",
    "C16": "pure number theory (primality, factorisation, gcd/lcm): no state, schedule, fault or entropy (DESIGN 8/C16)",
}

PENDING = {}


def load_tables():
    p = os.path.join(HERE, "tools", "manifest_table.json")
    with open(p) as f:
        t = json.load(f)
    return t["claimed"], t.get("pending", {})


def main():
    claimed, pending = load_tables()
    checks = []
    for pid in sorted(claimed):
        c = claimed[pid]
        checks.append(dict(
            property_id=pid,
            quick_cmd="./check %s --tier quick" % pid,
            thorough_cmd="./check %s --tier thorough" % pid,
            evidence_file="evidence/%s.json" % pid,
            replay_cmd_template="./check replay {path}",
            engine=c["engine"],
            level_claimed=dict(category=c["category"], text=c["text"],
                               design_ref=c["design_ref"]),
            level_note=c["note"],
            technique=c["technique"],
        ))
    na = [dict(property_id=k, reason=v) for k, v in sorted(NOT_APPLICABLE.items())]
    for k, v in sorted(pending.items()):
        na.append(dict(property_id=k, reason=v))
    na.sort(key=lambda d: d["property_id"])
    doc = dict(
        version=1,
        setup_cmd="./check setup",
        hooks=dict(
            guard="PYTHON_ECDSA_VERIF",
            enable="no source hook exists: every seam is reached from outside "
                   "(sys.monitoring, class-level attribute wrappers, module-"
                   "global shims for threading/os, the public entropy= "
                   "parameter); checks import /repo/src directly with "
                   "PYTHON_ECDSA_VERIF=1 set (informational)",
            baseline_off_cmd=BASELINE_OFF,
            source_commits=[],
            add_only=True,
        ),
        engines=[
            dict(name="schedsim", path="dsim/sched.py",
                 serves_properties=[p for p in sorted(claimed) if claimed[p]["engine"] == "schedsim"],
                 kind_free_text="seeded baton-passing scheduler for real threads; yield points from sys.monitoring LINE/INSTRUCTION events, attribute-access wrappers and simulated mutexes; PCT / random / targeted-parking strategies; injected interrupts"),
            dict(name="histsim", path="dsim/hist.py",
                 serves_properties=[p for p in sorted(claimed) if claimed[p]["engine"] == "histsim"],
                 kind_free_text="seeded operation histories over a pool of live library objects, checked step by step against a representation-free reference model and against freshly built objects; interrupt and pickle-restart faults"),
            dict(name="worldsim", path="dsim/world.py",
                 serves_properties=[p for p in sorted(claimed) if claimed[p]["engine"] == "worldsim"],
                 kind_free_text="simulated parties (signer, verifier, key store, ECDH peers), faulty channel/store (flip, truncate, extend, splice, length tamper, replay, misdelivery, Byzantine sender) and a simulated entropy device around the real library code"),
        ],
        checks=checks,
        not_applicable=na,
        notes="All checks: ./check <ID> --tier quick|thorough, honour VERIF_SEED/VERIF_TIER, rebuild nothing (pure Python, imported from /repo/src at run time), exit 0 held / 1 VIOLATION / 2 harness error. Determinism self-test: ./check selftest.",
    )
    with open(os.path.join(HERE, "MANIFEST.json"), "w") as f:
        json.dump(doc, f, indent=1)
        f.write("\n")
    try:
        import jsonschema
        jsonschema.validate(doc, json.load(open("/root/.vp/MANIFEST.schema.json")))
        print("MANIFEST.json valid;", len(checks), "checks,", len(na), "not applicable")
    except ImportError:
        print("jsonschema not available here; wrote MANIFEST.json")


if __name__ == "__main__":
    main()
