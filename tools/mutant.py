#!/venv/bin/python -B
"""tools/mutant.py <patch.diff> <ID>[,<ID>...] [--tier quick] [--demo demo.py]
Apply a seeded change to a scratch worktree of /repo (outside /repo and
/verif), run the named checks against it with VERIF_REPO, report exit codes
and wall time, remove the worktree."""
import os
import shutil
import subprocess
import sys
import tempfile
import time

HERE = os.path.dirname(os.path.dirname(os.path.abspath(__file__)))


def main():
    patch = os.path.abspath(sys.argv[1])
    ids = sys.argv[2].split(",")
    tier = "quick"
    demo = None
    if "--tier" in sys.argv:
        tier = sys.argv[sys.argv.index("--tier") + 1]
    if "--demo" in sys.argv:
        demo = os.path.abspath(sys.argv[sys.argv.index("--demo") + 1])
    wt = tempfile.mkdtemp(prefix="mw_", dir="/dev/shm")
    os.rmdir(wt)
    subprocess.run(["git", "-C", "/repo", "worktree", "add", "--detach", "-q",
                    wt, "HEAD"], check=True)
    rc_all = {}
    try:
        p = subprocess.run(["git", "-C", wt, "apply", "--3way", patch],
                           capture_output=True, text=True)
        if p.returncode:
            p = subprocess.run(["git", "-C", wt, "apply", patch],
                               capture_output=True, text=True)
        if p.returncode:
            print("PATCH DOES NOT APPLY:", p.stderr[-500:])
            return 3
        if demo:
            env = dict(os.environ, PYTHONPATH=wt + "/src")
            q = subprocess.run(["/venv/bin/python", "-B", demo], env=env,
                               capture_output=True, text=True, timeout=300)
            env2 = dict(os.environ, PYTHONPATH="/repo/src")
            q2 = subprocess.run(["/venv/bin/python", "-B", demo], env=env2,
                                capture_output=True, text=True, timeout=300)
            print("demo: mutated rc=%d, current /repo rc=%d" % (
                q.returncode, q2.returncode))
        for pid in ids:
            env = dict(os.environ, VERIF_REPO=wt, VERIF_OUT="/dev/shm/verif_mutout")
            t0 = time.time()
            q = subprocess.run([os.path.join(HERE, "check"), pid, "--tier",
                                tier], env=env, capture_output=True,
                               text=True, cwd=HERE)
            dt = time.time() - t0
            lines = [l for l in q.stdout.splitlines()
                     if l.startswith(("VIOLATION", "HARNESS", "KNOWN"))
                     or "violation class" in l]
            print("%s rc=%d %.1fs %s" % (pid, q.returncode, dt,
                                         " | ".join(l[:160] for l in lines)))
            if q.returncode == 2:
                print(q.stdout[-1500:], q.stderr[-1500:])
            rc_all[pid] = q.returncode
    finally:
        subprocess.run(["git", "-C", "/repo", "worktree", "remove", "--force",
                        wt])
        shutil.rmtree(wt, ignore_errors=True)
    return 0


if __name__ == "__main__":
    sys.exit(main())
