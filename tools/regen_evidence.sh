#!/bin/bash
# Re-run every claimed check's quick tier against /repo and rewrite evidence/.
cd "$(dirname "$0")/.."
rc_all=0
for c in $(python3 -c "import json; print(' '.join(x['property_id'] for x in json.load(open('MANIFEST.json'))['checks']))"); do
  ./check $c --tier quick > /dev/shm/regen_$c.log 2>&1
  rc=$?
  echo "$c rc=$rc $(grep -c '^KNOWN-FINDING' /dev/shm/regen_$c.log) known $(egrep '^\[C.*runs=' /dev/shm/regen_$c.log | cut -c1-90)"
  [ $rc -ne 0 ] && rc_all=1
done
exit $rc_all
