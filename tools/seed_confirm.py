#!/venv/bin/python -B
"""tools/seed_confirm.py <src_dir> <seed_id> <property> <check ids,comma> 
Confirm a seeded change (src_dir has patch.diff, demo.py, notes.md) in a
scratch worktree of /repo HEAD: patch applies; demo fails with it and passes
without; pinned test suite still passes with it; then run the named checks
against it.  Writes /verif/seeded/<seed_id>/ {patch.diff, demo.py, notes.md,
meta.json}."""
import json
import os
import shutil
import subprocess
import sys
import tempfile
import time

HERE = os.path.dirname(os.path.dirname(os.path.abspath(__file__)))


def run(cmd, **kw):
    return subprocess.run(cmd, capture_output=True, text=True, **kw)


def main():
    src, sid, prop, checks = sys.argv[1:5]
    tier = sys.argv[5] if len(sys.argv) > 5 else "quick"
    checks = checks.split(",")
    wt = tempfile.mkdtemp(prefix="sc_", dir="/dev/shm")
    os.rmdir(wt)
    run(["git", "-C", "/repo", "worktree", "add", "--detach", "-q", wt, "HEAD"])
    meta = dict(seed_id=sid, property=prop, repo_head=run(
        ["git", "-C", "/repo", "rev-parse", "HEAD"]).stdout.strip())
    try:
        patch = os.path.join(src, "patch.diff")
        demo = os.path.join(src, "demo.py")
        env_m = dict(os.environ, PYTHONPATH=wt + "/src")
        q0 = run(["/venv/bin/python", "-B", demo], env=env_m, timeout=600)
        meta["demo_rc_clean"] = q0.returncode
        p = run(["git", "-C", wt, "apply", patch])
        meta["patch_applies"] = p.returncode == 0
        if p.returncode:
            print(sid, "PATCH DOES NOT APPLY", p.stderr[-300:])
            return 3
        q1 = run(["/venv/bin/python", "-B", demo], env=env_m, timeout=600)
        meta["demo_rc_mutated"] = q1.returncode
        meta["demo_output_mutated"] = (q1.stdout + q1.stderr)[-600:]
        b = run([os.path.join(HERE, "tools", "baseline_check.py"), wt])
        meta["baseline_rc_mutated"] = b.returncode
        meta["baseline_summary"] = b.stdout.strip().splitlines()[-1] if b.stdout.strip() else ""
        meta["checks"] = {}
        for pid in checks:
            env = dict(os.environ, VERIF_REPO=wt, VERIF_OUT="/dev/shm/verif_mutout")
            t0 = time.time()
            q = run([os.path.join(HERE, "check"), pid, "--tier", tier],
                    env=env, cwd=HERE)
            dt = time.time() - t0
            cls = [l.split("violation class ")[1].split(" at run")[0]
                   for l in q.stdout.splitlines() if "violation class" in l]
            meta["checks"][pid] = dict(rc=q.returncode, wall_s=round(dt, 1),
                                       tier=tier,
                                       violation_class=cls[0] if cls else None)
        meta["detected_by"] = sorted(k for k, v in meta["checks"].items()
                                     if v["rc"] == 1)
        notes = open(os.path.join(src, "notes.md")).read()
        meta["needs_to_manifest"] = notes[:1500]
        meta["ran"] = ("tools/seed_confirm.py: git worktree of /repo HEAD under "
                       "/dev/shm; demo on clean tree, git apply patch.diff, demo "
                       "on mutated tree, tools/baseline_check.py (pinned suite, "
                       "guard off), then ./check <ID> --tier %s with "
                       "VERIF_REPO=<worktree>; worktree removed" % tier)
        ok = (meta["demo_rc_clean"] == 0 and meta["demo_rc_mutated"] != 0
              and meta["baseline_rc_mutated"] == 0)
        meta["confirmed"] = ok
        out = os.path.join(HERE, "seeded", sid)
        os.makedirs(out, exist_ok=True)
        for f in ("patch.diff", "demo.py", "notes.md"):
            shutil.copy(os.path.join(src, f), os.path.join(out, f))
        with open(os.path.join(out, "meta.json"), "w") as f:
            json.dump(meta, f, indent=1, sort_keys=True)
        print(sid, "confirmed=%s" % ok, "demo clean/mut=%d/%d" % (
            meta["demo_rc_clean"], meta["demo_rc_mutated"]),
            "baseline=%d" % meta["baseline_rc_mutated"],
            "detected_by=%s" % meta["detected_by"],
            {k: (v["rc"], v["wall_s"], v["violation_class"])
             for k, v in meta["checks"].items()})
    finally:
        run(["git", "-C", "/repo", "worktree", "remove", "--force", wt])
        shutil.rmtree(wt, ignore_errors=True)
    return 0


if __name__ == "__main__":
    sys.exit(main())
