#!/venv/bin/python -B
import json, os, glob
HERE = os.path.dirname(os.path.dirname(os.path.abspath(__file__)))
rows = []
for m in sorted(glob.glob(os.path.join(HERE, "seeded", "*", "meta.json"))):
    d = json.load(open(m))
    first = open(os.path.join(os.path.dirname(m), "notes.md")).read().strip().splitlines()
    title = next((l.strip("# ").strip() for l in first if l.strip()), "")[:110]
    chk = "; ".join("%s rc=%d %.0fs %s" % (k, v["rc"], v["wall_s"], v["violation_class"] or "")
                    for k, v in sorted(d["checks"].items()))
    rows.append("| %s | %s | %s | %s | %s |" % (d["seed_id"], d["property"], title.replace("|", "/"),
                                                "yes" if d.get("confirmed") else "NO", chk))
with open(os.path.join(HERE, "seeded", "INDEX.md"), "w") as f:
    f.write("# Seeded changes\n\n| id | property | change | confirmed (suite passes, demo fails/passes) | checks (quick tier) |\n|---|---|---|---|---|\n")
    f.write("\n".join(rows) + "\n")
print(len(rows), "seeded changes indexed")
