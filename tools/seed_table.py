#!/venv/bin/python -B
"""Regenerate the 'which check catches which seeded change' table inside
DESIGN.md (between the SEED-TABLE markers) from seeded/*/meta.json."""
import glob
import json
import os
import re

HERE = os.path.dirname(os.path.dirname(os.path.abspath(__file__)))


def key(m):
    sid = json.load(open(m))["seed_id"]
    a, b = sid.split("-")
    return (a, int(b))


rows = []
for m in sorted(glob.glob(os.path.join(HERE, "seeded", "*", "meta.json")), key=key):
    d = json.load(open(m))
    notes = open(os.path.join(os.path.dirname(m), "notes.md")).read().strip().splitlines()
    title = next((l.strip("# *").strip() for l in notes if l.strip()), "")
    title = re.sub(r"\s+", " ", title)[:95].replace("|", "/")
    det = ", ".join("%s (%.0f s)" % (k, v["wall_s"]) for k, v in sorted(d["checks"].items()) if v["rc"] == 1)
    miss = ", ".join(k for k, v in sorted(d["checks"].items()) if v["rc"] != 1)
    rows.append("| %s | %s | %s | %s |" % (d["seed_id"], title, det or "-", miss or ""))
table = ("| id | change (first line of its notes) | caught by (quick tier, wall s) | not caught by |\n"
         "|---|---|---|---|\n" + "\n".join(rows))
p = os.path.join(HERE, "DESIGN.md")
s = open(p).read()
a, b = "<!-- SEED-TABLE-BEGIN -->", "<!-- SEED-TABLE-END -->"
if a in s:
    s = s[:s.index(a) + len(a)] + "\n" + table + "\n" + s[s.index(b):]
open(p, "w").write(s)
print(len(rows), "rows")
