#!/bin/bash
# quick tier of every claimed check for a range of seeds: hunts rare false
# alarms on the unchanged tree.  usage: tools/seedsweep.sh FROM TO
cd "$(dirname "$0")/.."
export VERIF_OUT=/dev/shm/verif_sweep_out
for seed in $(seq $1 $2); do
  for c in C20 C18 C19 C06 C07 C17 C10 C11 C12 C02 C08 C01 C09 C05; do
    out=$(VERIF_SEED=$seed ./check $c --tier quick 2>&1)
    rc=$?
    echo "seed=$seed $c rc=$rc $(echo "$out" | egrep 'VIOLATION|HARNESS|PROBE-AT-ZERO' | cut -c1-300 | tr '\n' ' ')"
  done
done
