#!/bin/bash
# soak: thorough tier of every claimed check with a given seed (default 1)
seed=${1:-1}
for c in C20 C18 C19 C06 C07 C17 C10 C11 C12 C02 C08 C01 C09 C05; do
  echo "=== $c thorough seed=$seed $(date +%T)"
  VERIF_SEED=$seed ./check $c --tier thorough 2>&1 | egrep "^\[|VIOLATION|HARNESS|KNOWN|rc=" | cut -c1-400
  echo "rc=${PIPESTATUS[0]}"
done
