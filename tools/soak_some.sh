#!/bin/bash
# soak of selected checks: tools/soak_some.sh SEED ID...
seed=$1; shift
for c in "$@"; do
  echo "=== $c thorough seed=$seed $(date +%T)"
  VERIF_SEED=$seed ./check $c --tier thorough 2>&1 | egrep "^\[|VIOLATION|HARNESS|KNOWN|rc=" | cut -c1-400
  echo "rc=${PIPESTATUS[0]}"
done
